#!/usr/bin/env python3
"""
units/squidmath/gen.py -- instantiate the function templates of the REAL src/SquidMath.h in C, per type tuple.

Run by cv/core.py at extraction time (env VERIF_BUILD_DIR / VERIF_UNIT_DIR / VERIF_REPO).  Reads the copy of the real
header that the driver has just written to $VERIF_BUILD_DIR/SquidMath.h.txt (so that selftest mutants of the real text
are seen), cuts the bodies of

    AllUnsigned (shape check only), Less, AssertNaturalType (shape check only), IncreaseSumInternal (both overloads),
    IncreaseSum (2-argument and variadic), NaturalSum, SetToNaturalSumOrMax

and pastes their statements -- every kept token verbatim -- into C functions, one per type tuple, with template
parameters bound by local typedefs.  What is NOT verbatim is a fixed list of mechanical rewrites, each printed as a
"DROP:" line (-> evidence.extraction_drops).  Any text shape this script does not know aborts with exit 1
(=> "extraction broke", exit 2 of the check, never a pass and never a violation).

What the generator itself decides (trusted, cross-checked by _Static_assert in the generated C where possible):
  * integer promotion of a type (unary +)                 -> checked: __builtin_types_compatible_p(__typeof__(+x), T)
  * usual arithmetic conversions (type of  max(S) - a)    -> checked the same way
  * overload choice by  AllUnsigned<A,B>  on the promoted types (both unsigned => first overload)
  * overload choice between IncreaseSum(S,T) and IncreaseSum(S,T,Args...) (empty pack => the 2-argument one)
  * unrolling of the parameter pack  args...

Outputs in the build dir: sm_inst.h (types, optional<> model, prototypes), sm_inst.c (definitions = "user code",
safety-instrumented), sm_checks.inc (one CHK_* line per checked tuple; consumed by contract.c and by replay.cc).
"""
import os
import re
import sys

BDIR = os.environ.get("VERIF_BUILD_DIR", ".")
SRC = os.path.join(BDIR, "SquidMath.h.txt")

drops = {}          # text -> count (printed once)


def drop(msg):
    drops[msg] = drops.get(msg, 0) + 1


def die(msg):
    sys.stderr.write("gen.py: unexpected text shape in src/SquidMath.h: %s\n" % msg)
    sys.exit(1)


# --------------------------------------------------------------------------------------------------------------
# types
# --------------------------------------------------------------------------------------------------------------

class Ty:
    def __init__(self, tag, c, signed, bits):
        self.tag, self.c, self.signed, self.bits = tag, c, signed, bits
        self.max = (1 << (bits - 1)) - 1 if signed else (1 << bits) - 1
        self.lit = "%d%s" % (self.max, "" if bits < 32 else ("" if signed and bits == 32 else
                                                             ("U" if bits == 32 else ("L" if signed else "UL"))))

    def __repr__(self):
        return self.tag


TYPES = [Ty("i8", "int8_t", True, 8), Ty("i16", "int16_t", True, 16), Ty("i32", "int32_t", True, 32),
         Ty("i64", "int64_t", True, 64), Ty("u8", "uint8_t", False, 8), Ty("u16", "uint16_t", False, 16),
         Ty("u32", "uint32_t", False, 32), Ty("u64", "uint64_t", False, 64)]
BY = {t.tag: t for t in TYPES}
I32 = BY["i32"]


def promote(t):
    """type of +x (LP64: every type narrower than int fits int)"""
    return I32 if t.bits < 32 else t


def uac(x, y):
    """usual arithmetic conversions (LP64, the eight fixed-width types)"""
    x, y = promote(x), promote(y)
    if x is y:
        return x
    if x.signed == y.signed:
        return x if x.bits >= y.bits else y
    u, s = (y, x) if x.signed else (x, y)
    return u if u.bits >= s.bits else s


def common_type(a, b):
    """std::common_type<A,B>::type = type of (false ? A() : B()): C++ performs NO promotion when both operands have
    the same type ([expr.cond]/6); otherwise the usual arithmetic conversions apply"""
    return a if a is b else uac(a, b)


def all_unsigned(a, b):
    """AllUnsigned<A,B>::value  (the alias's text shape is checked in parse())"""
    return (not a.signed) and (not b.signed)


# --------------------------------------------------------------------------------------------------------------
# reading the header
# --------------------------------------------------------------------------------------------------------------

def strip_comments(text):
    out = []
    i, n = 0, len(text)
    while i < n:
        c = text[i]
        if c == '/' and i + 1 < n and text[i + 1] == '/':
            j = text.find('\n', i)
            i = n if j < 0 else j
        elif c == '/' and i + 1 < n and text[i + 1] == '*':
            j = text.find('*/', i + 2)
            if j < 0:
                die("unterminated comment")
            out.append(' ')
            i = j + 2
        elif c == '"':
            j = i + 1
            while j < n and text[j] != '"':
                j += 2 if text[j] == '\\' else 1
            out.append(text[i:j + 1])
            i = j + 1
        else:
            out.append(c)
            i += 1
    return "".join(out)


def match_close(text, i, op, cl):
    """text[i] == op; index just past the matching cl (string literals skipped)"""
    assert text[i] == op
    d = 0
    n = len(text)
    while i < n:
        c = text[i]
        if c == '"':
            i += 1
            while i < n and text[i] != '"':
                i += 2 if text[i] == '\\' else 1
        elif c == op:
            d += 1
        elif c == cl:
            d -= 1
            if d == 0:
                return i + 1
        i += 1
    die("unbalanced %s%s" % (op, cl))


def ws(rx):
    """a signature written with single spaces -> regex tolerant of any whitespace"""
    return re.sub(r'\\? ', r'\\s*', rx)


def cut(text, name, sig_rx):
    ms = list(re.finditer(ws(sig_rx) + r'\s*\{', text))
    if len(ms) != 1:
        die("%s: signature matched %d times (expected 1): /%s/" % (name, len(ms), sig_rx))
    o = ms[0].end() - 1
    e = match_close(text, o, '{', '}')
    return text[o + 1:e - 1]


def norm(s):
    return re.sub(r'\s+', ' ', s).strip()


def parse():
    try:
        with open(SRC, encoding="utf-8", errors="surrogateescape") as f:
            raw = f.read()
    except OSError as e:
        die("cannot read %s: %s" % (SRC, e))
    t = strip_comments(raw)
    B = {}
    # AllUnsigned: the generator re-implements this alias (all_unsigned above); its text must be exactly the known one
    m = re.search(r'template\s*<typename T, typename U>\s*using AllUnsigned\s*=(.*?);', t, re.S)
    if not m:
        die("AllUnsigned alias not found")
    want = ("typename std::conditional< std::is_unsigned<T>::value && std::is_unsigned<U>::value, "
            "std::true_type, std::false_type >::type")
    if norm(m.group(1)) != want:
        die("AllUnsigned is no longer 'both is_unsigned': " + norm(m.group(1)))
    drop("AllUnsigned<T,U> alias: re-implemented by the generator as (T unsigned && U unsigned); alias text checked verbatim")

    B["Less"] = cut(t, "Less", r'template <typename A, typename B> constexpr bool Less\(const A a, const B b\)')
    ant = cut(t, "AssertNaturalType", r'template<typename T> constexpr void AssertNaturalType\(\)')
    if norm(remove_static_asserts(ant, "AssertNaturalType")) != "":
        die("AssertNaturalType contains something other than static_asserts")
    B["ISI_u"] = cut(t, "IncreaseSumInternal[AllUnsigned]",
                     r'template <typename S, typename A, typename B, std::enable_if_t<AllUnsigned<A,B>::value, int> = 0> '
                     r'std::optional<S> IncreaseSumInternal\(const A a, const B b\)')
    B["ISI_s"] = cut(t, "IncreaseSumInternal[!AllUnsigned]",
                     r'template <typename S, typename A, typename B, std::enable_if_t<!AllUnsigned<A,B>::value, int> = 0> '
                     r'std::optional<S> constexpr IncreaseSumInternal\(const A a, const B b\)')
    drop("std::enable_if_t<[!]AllUnsigned<A,B>::value,int> overload dispatch of IncreaseSumInternal: reproduced by the "
         "generator on the promoted argument types")
    B["IS2"] = cut(t, "IncreaseSum(s,t)",
                   r'template <typename S, typename T> std::optional<S> IncreaseSum\(const S s, const T t\)')
    B["ISv"] = cut(t, "IncreaseSum(sum,t,args...)",
                   r'template <typename S, typename T, typename\.\.\. Args> std::optional<S> '
                   r'IncreaseSum\(const S sum, const T t, const Args\.\.\. args\)')
    B["NS"] = cut(t, "NaturalSum",
                  r'template <typename SummationType, typename\.\.\. Args> std::optional<SummationType> '
                  r'NaturalSum\(const Args\.\.\. args\)')
    B["SET"] = cut(t, "SetToNaturalSumOrMax",
                   r'template <typename S, typename\.\.\. Args> S SetToNaturalSumOrMax\(S &var, const Args\.\.\. args\)')
    drop("constexpr / template<> heads / const-by-value signatures: each function is re-declared in C per type tuple, "
         "template parameters bound by local typedefs")
    return B


# --------------------------------------------------------------------------------------------------------------
# mechanical rewrites of statement text
# --------------------------------------------------------------------------------------------------------------

def remove_static_asserts(body, where):
    while True:
        m = re.search(r'\bstatic_assert\s*\(', body)
        if not m:
            return body
        e = match_close(body, m.end() - 1, '(', ')')
        m2 = re.match(r'\s*;', body[e:])
        if not m2:
            die("%s: static_assert not followed by ';'" % where)
        drop("%s: static_assert(%s) dropped (compile-time fact enforced by the real compiler)"
             % (where, norm(body[m.end():e - 1])[:90]))
        body = body[:m.start()] + body[e + m2.end():]


def rewrite_common(body, where, ctx):
    """ctx: template parameter name -> Ty.  Returns C text."""
    body = remove_static_asserts(body, where)
    body, n = re.subn(r'\bAssertNaturalType<\w+>\(\)\s*;', '', body)
    if n:
        drop("%s: AssertNaturalType<T>() x%d dropped (body is static_asserts only; checked)" % (where, n))
    if re.search(r'\busing AB\b', body):
        ab = common_type(ctx["A"], ctx["B"])
        body, n = re.subn(r'\busing AB = typename std::common_type<A, B>::type\s*;',
                          'typedef T_%s AB; CV_SAME_TYPE(AB, %s);' %
                          (ab.tag, "A" if ctx["A"] is ctx["B"] else "__typeof__(1 ? (A)0 : (B)0)"), body)
        if n != 1:
            die(where + ": 'using AB = typename std::common_type<A, B>::type;' expected once")
        drop("%s: 'using AB = typename std::common_type<A, B>::type' -> 'typedef <T> AB' with T computed by the generator "
             "(A if A is B, else the usual arithmetic conversions); re-checked in C against the type of (1 ? (A)0 : (B)0) "
             "and natively by g++ against std::common_type on every run (sm_typecheck.cc)" % where)
    # static_cast<T>(x) -> ((T)(x))
    k = 0
    while True:
        m = re.search(r'\bstatic_cast<(\w+)>\s*\(', body)
        if not m:
            break
        e = match_close(body, m.end() - 1, '(', ')')
        body = body[:m.start()] + "((" + m.group(1) + ")(" + body[m.end():e - 1] + "))" + body[e:]
        k += 1
    if k:
        drop("%s: static_cast<T>(x) -> ((T)(x)) x%d" % (where, k))

    def lim(m):
        p = m.group(1)
        if p not in ctx:
            die("%s: numeric_limits of unknown parameter %s" % (where, p))
        return "((%s)%s)" % (p, ctx[p].lit)
    body, n = re.subn(r'\bstd::numeric_limits<(\w+)>::max\(\)', lim, body)
    if n:
        drop("%s: std::numeric_limits<S>::max() -> ((S)<constant of the bound type>) x%d" % (where, n))

    def none(m):
        return "cv_none_%s()" % ctx[m.group(1)].tag
    body, n = re.subn(r'\bstd::optional<(\w+)>\(\)', none, body)

    def some(m):
        return "cv_some_%s(" % ctx[m.group(1)].tag
    body, n2 = re.subn(r'\bstd::optional<(\w+)>\(', some, body)
    if n or n2:
        drop("%s: std::optional<S>() / std::optional<S>(x) -> struct {_Bool has; S v;} constructors x%d "
             "(x converts to S implicitly, as in optional's converting constructor)" % (where, n + n2))
    return body


RESIDUE = [r'::', r'\bstd\b', r'\bstatic_cast\b', r'\btemplate\b', r'\btypename\b', r'\bauto\b', r'\.\.\.',
           r'\bconstexpr\b', r'\bdecltype\b', r'\busing\b', r'\w<\w+>', r'\bnullopt\b', r'\.value', r'\bthrow\b',
           r'\bnew\b', r'\bdelete\b', r'\boperator\b', r'\[\s*\]', r'\bstatic_assert\b', r'\bIncreaseSum\w*\s*[<(]',
           r'\bNaturalSum\b', r'\bLess\b']


def check_residue(c, where):
    for rx in RESIDUE:
        m = re.search(rx, c)
        if m:
            die("%s: untranslated C++ construct '%s' left in: %s" % (where, m.group(0), norm(c)[:200]))


def sub_exact(body, rx, repl, count, where, why):
    body, n = re.subn(rx, repl, body)
    if n != count:
        die("%s: /%s/ matched %d times, expected %d" % (where, rx, n, count))
    drop("%s: %s" % (where, why))
    return body


# --------------------------------------------------------------------------------------------------------------
# instantiation (memoised; dependencies first)
# --------------------------------------------------------------------------------------------------------------

class Gen:
    def __init__(self, bodies):
        self.B = bodies
        self.done = {}      # name -> prototype
        self.defs = []      # (name, text)
        self.deps = {}      # name -> direct callees

    def emit(self, name, proto, comment, typedefs, body, where, callees=()):
        self.deps[name] = list(callees)
        check_residue(body, where)
        body = re.sub(r'\n\s*\n+', '\n', "\n" + body).strip("\n")
        td = " ".join("typedef T_%s %s;" % (t.tag, p) for p, t in typedefs)
        self.defs.append((name, "/* %s */\n%s\n{\n    %s\n%s\n}\n" % (comment, proto, td, body.rstrip())))
        self.done[name] = proto

    def less(self, a, b):
        name = "Less__%s__%s" % (a, b)
        if name in self.done:
            return name
        self.done[name] = None
        where = "Less"
        body = rewrite_common(self.B["Less"], where, {"A": a, "B": b})
        proto = "_Bool %s(const T_%s a, const T_%s b)" % (name, a, b)
        self.emit(name, proto, "Less<%s,%s>" % (a.c, b.c), [("A", a), ("B", b)], body, where)
        return name

    def isi(self, s, a, b):
        """IncreaseSumInternal<S>(a, b) with A, B the (already promoted) argument types"""
        name = "ISI__%s__%s__%s" % (s, a, b)
        if name in self.done:
            return name
        self.done[name] = None
        if promote(a) is not a or promote(b) is not b:
            die("internal: IncreaseSumInternal instantiated with unpromoted types")
        ctx = {"S": s, "A": a, "B": b}
        if all_unsigned(a, b):
            where = "IncreaseSumInternal[AllUnsigned]"
            body = rewrite_common(self.B["ISI_u"], where, ctx)
            ov = "AllUnsigned overload"
        else:
            where = "IncreaseSumInternal[!AllUnsigned]"
            body = rewrite_common(self.B["ISI_s"], where, ctx)
            ov = "!AllUnsigned overload"
            # the one call: Less(max(S) - a, b): argument types = (usual arithmetic conversions of S and A, B)
            x = uac(s, a)
            callee = self.less(x, b)
            m = re.search(r'\bLess\s*\(', body)
            if not m or len(re.findall(r'\bLess\s*\(', body)) != 1:
                die(where + ": expected exactly one call of Less(")
            e = match_close(body, m.end() - 1, '(', ')')
            args = body[m.end():e - 1]
            parts = split_args(args)
            if len(parts) != 2 or norm(parts[1]) != "b" or not re.fullmatch(r'\(\(S\)\d+U?L?\) - a', norm(parts[0])):
                die(where + ": Less() arguments are no longer (max(S) - a, b): " + norm(args))
            body = (body[:m.start()] + "CV_TYPED(" + callee + ", T_%s, %s, T_%s, %s)" % (x, parts[0].strip(), b, parts[1].strip())
                    + body[e:])
            drop(where + ": call Less(max(S) - a, b) bound to the instantiation Less<typeof(max(S) - a), B> chosen by the "
                         "generator; both argument types re-checked by _Static_assert(__builtin_types_compatible_p) in C")
        proto = "opt_%s %s(const T_%s a, const T_%s b)" % (s, name, a, b)
        self.emit(name, proto, "IncreaseSumInternal<%s,%s,%s>  [%s]" % (s.c, a.c, b.c, ov),
                  [("S", s), ("A", a), ("B", b)], body, where, [] if all_unsigned(a, b) else [callee])
        return name

    def is2(self, s, t):
        name = "IS2__%s__%s" % (s, t)
        if name in self.done:
            return name
        self.done[name] = None
        where = "IncreaseSum(s,t)"
        body = rewrite_common(self.B["IS2"], where, {"S": s, "T": t})
        ps, pt = promote(s), promote(t)
        callee = self.isi(s, ps, pt)
        body = sub_exact(body, r'\bIncreaseSumInternal<S>\(\+s, \+t\)',
                         "CV_TYPED(%s, T_%s, +s, T_%s, +t)" % (callee, ps, pt), 1, where,
                         "call IncreaseSumInternal<S>(+s, +t) bound to the overload/instantiation for the promoted types "
                         "decltype(+s), decltype(+t) (generator: promotion table + AllUnsigned; types re-checked by _Static_assert)")
        proto = "opt_%s %s(const T_%s s, const T_%s t)" % (s, name, s, t)
        self.emit(name, proto, "IncreaseSum<%s,%s>(s, t)" % (s.c, t.c), [("S", s), ("T", t)], body, where, [callee])
        return name

    def isn(self, s, ts):
        """IncreaseSum(S sum, T t, Args... args) for len(ts) >= 1 further arguments"""
        if len(ts) == 1:
            return self.is2(s, ts[0])
        name = "IS%d__%s__%s" % (len(ts) + 1, s, "__".join(x.tag for x in ts))
        if name in self.done:
            return name
        self.done[name] = None
        where = "IncreaseSum(sum,t,args...)"
        t, rest = ts[0], ts[1:]
        body = rewrite_common(self.B["ISv"], where, {"S": s, "T": t})
        head = self.is2(s, t)
        tail = self.isn(s, rest)
        an = ["args_%d" % i for i in range(len(rest))]
        body = sub_exact(body, r'\bif \(const auto (\w+) = IncreaseSum\(sum, t\)\) \{',
                         "const opt_%s \\1 = %s(sum, t);\n    if (\\1.has) {" % (s, head), 1, where,
                         "'if (const auto head = IncreaseSum(sum, t)) {' -> 'const opt_S head = IncreaseSum<S,T>(sum, t); "
                         "if (head.has) {' (optional in boolean context == has_value())")
        body = sub_exact(body, r'\bIncreaseSum\((\w+)\.value\(\), args\.\.\.\)',
                         "%s(cv_value_%s(\\1), %s)" % (tail, s, ", ".join(an)), 1, where,
                         "'IncreaseSum(head.value(), args...)' -> pack unrolled; overload = 2-argument IncreaseSum when "
                         "one argument is left; .value() -> cv_value_S() which asserts has (bad_optional_access otherwise)")
        body = sub_exact(body, r'\bstd::nullopt\b', "cv_none_%s()" % s, 1, where, "std::nullopt -> empty optional<S>")
        proto = "opt_%s %s(const T_%s sum, const T_%s t, %s)" % (
            s, name, s, t, ", ".join("const T_%s %s" % (x, n) for x, n in zip(rest, an)))
        self.emit(name, proto, "IncreaseSum<%s,%s>(sum, t, args...)" % (s.c, ",".join(x.c for x in ts)),
                  [("S", s), ("T", t)], body, where, [head, tail])
        return name

    def ns(self, s, ts):
        name = "NS%d__%s__%s" % (len(ts), s, "__".join(x.tag for x in ts))
        if name in self.done:
            return name
        self.done[name] = None
        where = "NaturalSum"
        body = rewrite_common(self.B["NS"], where, {"SummationType": s})
        callee = self.isn(s, ts)
        an = ["args_%d" % i for i in range(len(ts))]
        body = sub_exact(body, r'\bIncreaseSum<SummationType>\(0, args\.\.\.\)',
                         "%s(0, %s)" % (callee, ", ".join(an)), 1, where,
                         "'IncreaseSum<SummationType>(0, args...)' -> pack unrolled, literal 0 converts to S at the call")
        proto = "opt_%s %s(%s)" % (s, name, ", ".join("const T_%s %s" % (x, n) for x, n in zip(ts, an)))
        self.emit(name, proto, "NaturalSum<%s>(%s)" % (s.c, ", ".join(x.c for x in ts)),
                  [("SummationType", s)], body, where, [callee])
        return name

    def setmax(self, s, ts):
        name = "SET%d__%s__%s" % (len(ts), s, "__".join(x.tag for x in ts))
        if name in self.done:
            return name
        self.done[name] = None
        where = "SetToNaturalSumOrMax"
        body = rewrite_common(self.B["SET"], where, {"S": s})
        callee = self.ns(s, ts)
        an = ["args_%d" % i for i in range(len(ts))]
        body = sub_exact(body, r'\bNaturalSum<S>\(args\.\.\.\)\.value_or\(',
                         "cv_value_or_%s(%s(%s), " % (s, callee, ", ".join(an)), 1, where,
                         "'NaturalSum<S>(args...).value_or(x)' -> cv_value_or_S(NaturalSum<S>(unrolled pack), x) "
                         "(has ? v : (S)x, as std::optional::value_or)")
        body = sub_exact(body, r'\bvar\b', "(*var)", 2, where, "reference parameter 'S &var' -> pointer 'S *var', uses -> (*var)")
        proto = "T_%s %s(T_%s *var, %s)" % (s, name, s, ", ".join("const T_%s %s" % (x, n) for x, n in zip(ts, an)))
        self.emit(name, proto, "SetToNaturalSumOrMax<%s>(var, %s)" % (s.c, ", ".join(x.c for x in ts)),
                  [("S", s)], body, where, [callee])
        return name


def native_typecheck():
    """the generator's type decisions, checked by the real compiler against the header text under verification"""
    import subprocess
    repo = os.environ.get("VERIF_REPO", "/repo")
    L = ['#include "squid.h"', '#include "SquidMath.h.txt"', '#include <type_traits>', '#include <cstdint>', '#include <limits>']
    sa = lambda c: L.append('static_assert(%s, "generator type table");' % c)
    for t in TYPES:
        sa("sizeof(%s) * 8 == %d && std::is_signed<%s>::value == %s && std::numeric_limits<%s>::max() == %s"
           % (t.c, t.bits, t.c, "true" if t.signed else "false", t.c, t.lit))
        sa("std::is_same<decltype(+%s()), %s>::value" % (t.c, promote(t).c))
    for a in TYPES:
        for b in TYPES:
            sa("std::is_same<std::common_type<%s, %s>::type, %s>::value" % (a.c, b.c, common_type(a, b).c))
            sa("AllUnsigned<%s, %s>::value == %s" % (a.c, b.c, "true" if all_unsigned(a, b) else "false"))
            sa("std::is_same<decltype(std::numeric_limits<%s>::max() - %s()), %s>::value" % (a.c, b.c, uac(a, b).c))
    L.append("int main() { return 0; }")
    src = os.path.join(BDIR, "sm_typecheck.cc")
    with open(src, "w") as f:
        f.write("\n".join(L) + "\n")
    cmd = ["g++", "-std=c++17", "-fsyntax-only", "-I", BDIR, "-I", repo + "/src", "-I", repo + "/include", "-I", repo, src]
    try:
        p = subprocess.run(cmd, stdout=subprocess.PIPE, stderr=subprocess.STDOUT, timeout=300)
    except Exception as e:
        die("cannot run g++ for the type-table check: %s" % e)
    if p.returncode != 0:
        die("native type-table check failed (the header no longer compiles, or a generator type decision is wrong):\n"
            + p.stdout.decode("utf-8", "replace")[-1500:])


def split_args(s):
    parts, d, cur = [], 0, ""
    for ch in s:
        if ch == ',' and d == 0:
            parts.append(cur)
            cur = ""
            continue
        if ch in "([":
            d += 1
        elif ch in ")]":
            d -= 1
        cur += ch
    parts.append(cur)
    return parts


# --------------------------------------------------------------------------------------------------------------
# tuple selection
# --------------------------------------------------------------------------------------------------------------

def flip(t):
    return BY[("u" if t.signed else "i") + str(t.bits)]


def quick_pairs(s):
    """boundary-chosen argument type pairs for summation type s: same type, sign-flipped twin, widest mixed pair,
    narrowest mixed pair (forces promotion to int), 32-bit mixed pair (int vs unsigned: conversion to unsigned),
    all-unsigned pair with a 64-bit operand (AllUnsigned overload, sum wider than S)"""
    cand = [(s, s), (flip(s), s), (BY["u64"], BY["i64"]), (BY["i8"], BY["u8"]), (BY["u32"], BY["i32"]),
            # both unsigned with one operand wider than S: the AllUnsigned overload must range-check the result
            (BY["u%d" % s.bits], BY["u64"])]
    out = []
    for c in cand:
        if c not in out:
            out.append(c)
    return out


SECTIONS = (["LESS", "IS2", "NS1", "SET1"] + ["NS2_" + t.tag for t in TYPES] + ["SET2_" + t.tag for t in TYPES] +
            ["SUM3_" + t.tag for t in TYPES])
SECNO = {n: i + 1 for i, n in enumerate(SECTIONS)}     # wrap section number = -DWSEC=<n> (0 = everything)


def main():
    g = Gen(parse())
    # The driver does not pass the tier to gen.py; its build directory is <prop>-<tier>/<unit>.  In the quick tier (and
    # in selftests) only the quick subset is instantiated.  One section per target of unit.json; in the thorough tier
    # each target compiles only its own section of sm_inst.c (-DWSEC=<n>), in the quick tier everything (-DWSEC=0).
    full = re.search(r'-thorough(/|$)', BDIR) is not None or os.environ.get("SM_FULL") == "1"
    checks = []   # (section, macro, id, types, neg-possible, overflow-possible)
    roots = {}    # section -> root function names
    n = [0]
    count = {}

    def add(section, tier, macro, s, args, inst, first_is_s=False):
        """one checked instantiation: result type s, argument types args"""
        n[0] += 1
        if tier > 1 and not full:
            return
        roots.setdefault(section, []).append(inst())
        neg = any(t.signed for t in args)
        ovf = sum(t.max for t in args) > s.max
        tys = args if macro == "LESS" else ([s] + args[1:] if first_is_s else [s] + args)
        checks.append((section, macro, n[0], tys, neg, ovf))
        count[macro] = count.get(macro, 0) + 1

    # Less: all 64 ordered pairs, both tiers
    for a in TYPES:
        for b in TYPES:
            add("LESS", 1, "LESS", a, [a, b], lambda: g.less(a, b))
    # IncreaseSum(s,t): all 64 pairs, both tiers (S is also the type of the first argument)
    for s in TYPES:
        for t in TYPES:
            add("IS2", 1, "IS2", s, [s, t], lambda: g.is2(s, t), True)
    # NaturalSum<S>(a): all 64 pairs
    for s in TYPES:
        for a in TYPES:
            add("NS1", 1, "NS1", s, [a], lambda: g.ns(s, [a]))
    # SetToNaturalSumOrMax(var, a): all 64
    for s in TYPES:
        for a in TYPES:
            add("SET1", 1, "SET1", s, [a], lambda: g.setmax(s, [a]))
    # NaturalSum<S>(a,b): quick = boundary-chosen (S,A,B) triples (37 distinct); thorough = all 512
    for s in TYPES:
        qp = quick_pairs(s)
        for a in TYPES:
            for b in TYPES:
                add("NS2_" + s.tag, 1 if (a, b) in qp else 2, "NS2", s, [a, b], lambda: g.ns(s, [a, b]))
    # SetToNaturalSumOrMax(var, a, b): quick = 24 of those; thorough = all 512
    for s in TYPES:
        qp = quick_pairs(s)
        for a in TYPES:
            for b in TYPES:
                add("SET2_" + s.tag, 1 if (a, b) in qp[:3] else 2, "SET2", s, [a, b], lambda: g.setmax(s, [a, b]))
    # 3-argument sums.  IncreaseSum(s,t,u): quick = 16 (two boundary pairs per S); thorough = all 512
    for s in TYPES:
        qp = quick_pairs(s)
        for t in TYPES:
            for u in TYPES:
                add("SUM3_" + s.tag, 1 if (t, u) in qp[1:3] else 2, "IS3", s, [s, t, u], lambda: g.isn(s, [t, u]), True)
    # NaturalSum<S>(a,b,c): quick = 8 (one per S); thorough = S x boundary pairs (a,b) x c in {S, flip(S), i64, u8}
    for s in TYPES:
        cs = []
        for c in (s, flip(s), BY["i64"], BY["u8"]):
            if c not in cs:
                cs.append(c)
        qp = quick_pairs(s)
        for (a, b) in qp:
            for c in cs:
                add("SUM3_" + s.tag, 1 if ((a, b) == qp[1] and c is cs[0]) else 2, "NS3", s, [a, b, c],
                    lambda: g.ns(s, [a, b, c]))
    drop("tuple selection (%s tier): %s; %d instantiated C functions" %
         ("thorough" if full else "quick", ", ".join("%s x%d" % kv for kv in sorted(count.items())), len(g.done)))

    # which sections need which function (transitive callees of the section's roots)
    need = {}
    for sec, rs in roots.items():
        stack = list(rs)
        seen = set()
        while stack:
            f = stack.pop()
            if f in seen:
                continue
            seen.add(f)
            stack.extend(g.deps[f])
        for f in seen:
            need.setdefault(f, set()).add(SECNO[sec])

    def guard(name):
        ns_ = sorted(need.get(name, ()))
        if len(ns_) >= len(SECTIONS) - 1:
            return "1"
        return " || ".join(["WSEC == 0"] + ["WSEC == %d" % k for k in ns_])

    # ---- sm_inst.h
    h = ["/* GENERATED by units/squidmath/gen.py from the real src/SquidMath.h -- do not edit */",
         "#ifndef SM_INST_H", "#define SM_INST_H", "#include <stdint.h>", "#include <stdbool.h>",
         "#define CV_VALUE_CHECK(c) __CPROVER_assert((c), \"std::optional::value() is called on an engaged optional only (else bad_optional_access)\")", ""]
    for t in TYPES:
        h.append("typedef %s T_%s;" % (t.c, t.tag))
    for t in TYPES:
        h.append("#define GEN_MAX_%s ((T_%s)%s)" % (t.tag, t.tag, t.lit))
        h.append("_Static_assert(sizeof(T_%s) * 8 == %d && ((T_%s)-1 < 0) == %d, \"type table: %s\");"
                 % (t.tag, t.bits, t.tag, 1 if t.signed else 0, t.tag))
        h.append("_Static_assert(__builtin_types_compatible_p(__typeof__(+(T_%s)0), T_%s), \"promotion table: %s\");"
                 % (t.tag, promote(t).tag, t.tag))
        h.append("typedef struct { _Bool has; T_%s v; } opt_%s;   /* std::optional<%s> */" % (t.tag, t.tag, t.c))
        h.append("static inline opt_%s cv_none_%s(void) { opt_%s o; o.has = 0; o.v = 0; return o; }" % (t.tag, t.tag, t.tag))
        h.append("static inline opt_%s cv_some_%s(T_%s v) { opt_%s o; o.has = 1; o.v = v; return o; }" % (t.tag, t.tag, t.tag, t.tag))
        h.append("static inline T_%s cv_value_%s(opt_%s o) { CV_VALUE_CHECK(o.has); return o.v; }" % (t.tag, t.tag, t.tag))
        h.append("static inline T_%s cv_value_or_%s(opt_%s o, T_%s dflt) { return o.has ? o.v : dflt; }"
                 % (t.tag, t.tag, t.tag, t.tag))
        h.append("")
    h.append("#define CV_SAME_TYPE(X, Y) _Static_assert(__builtin_types_compatible_p(X, Y), \"generator type decision\")")
    for a in TYPES:
        for b in TYPES:
            # (cbmc keeps the operand type for  c ? x : y  when x and y have the same type -- as C++ does, unlike C --
            #  so the table is checked on the sum, which promotes in every dialect)
            h.append("_Static_assert(__builtin_types_compatible_p(__typeof__((T_%s)0 + (T_%s)0), T_%s), \"uac table\");"
                     % (a.tag, b.tag, uac(a, b).tag))
    h.append("")
    h.append("/* a call whose callee instantiation was chosen by the generator from the argument types: re-check them */")
    h.append("#define CV_TYPED(f, TA, a, TB, b) ((void)sizeof(char[__builtin_types_compatible_p(__typeof__(a), TA) && "
             "__builtin_types_compatible_p(__typeof__(b), TB) ? 1 : -1]), f((a), (b)))")
    h.append("")
    h.append("#ifndef WSEC\n#define WSEC 0\n#endif")
    for name, proto in g.done.items():
        h.append("#if %s\n%s;\n#endif" % (guard(name), proto))
    h.append("#endif")
    with open(os.path.join(BDIR, "sm_inst.h"), "w") as f:
        f.write("\n".join(h) + "\n")
    # ---- sm_inst.c
    with open(os.path.join(BDIR, "sm_inst.c"), "w") as f:
        f.write("/* GENERATED by units/squidmath/gen.py: statements of the real src/SquidMath.h, instantiated per type tuple */\n"
                "#include \"sm_inst.h\"\n\n" +
                "\n".join("#if %s\n%s#endif\n" % (guard(nm), txt) for nm, txt in g.defs))
    # ---- sm_checks.inc
    out = ["/* GENERATED: one line per checked instantiation.  CHK_<F>(id, types...) = contract check,",
           "   RCH_A/B/C(id, label) = reachability asserts: A = value returned (Less: true), B = rejected because an argument",
           "   is negative (Less: false), C = rejected because the sum does not fit -- B, C only where the case exists for the types.",
           "   tier: %s */" % ("thorough (everything)" if full else "quick subset")]
    out.append("#ifdef SM_ALL_SECTIONS   /* native replay: every section */")
    for sn in SECTIONS:
        out.append("#define SEC_" + sn)
    out.append("#endif")
    sec = None
    k = 0
    for (section, macro, i, tys, neg, ovf) in checks:
        if section != sec:
            if sec is not None:
                out.append("#endif")
            out.append("#ifdef SEC_" + section)
            sec = section
            k = 0
        k += 1
        label = '"%s<%s>"' % (macro, ",".join(t.tag for t in tys))
        line = "CHK_%s(%d, %s)" % (macro, i, ", ".join(t.tag for t in tys))
        # every failing assertion costs the solver one more call on the whole batch: the must-fail twin negates the
        # postconditions of the first tuple of each section only, reachability is asserted for the same tuple
        if k == 1:
            line = "TWIN_ON " + line + " TWIN_OFF"
        if k == 1:
            line += " RCH_A(%d, %s)" % (i, label)
            if macro == "LESS" or neg:
                line += " RCH_B(%d, %s)" % (i, label)
            if macro != "LESS" and ovf:
                line += " RCH_C(%d, %s)" % (i, label)
        # the twin and reach variants of a target only need the tuples that carry their assertions
        if k > 1:
            line = "#if !defined(TWIN) && !defined(REACH)\n" + line + "\n#endif"
        out.append(line)
    out.append("#endif")
    with open(os.path.join(BDIR, "sm_checks.inc"), "w") as f:
        f.write("\n".join(out) + "\n")
    native_typecheck()
    for k, v in drops.items():
        print("DROP: SquidMath.h: %s%s" % (k, (" [x%d instantiations]" % v) if v > 1 else ""))
    print("generated %d instantiated functions, %d checks" % (len(g.done), len(checks)))


def print_targets():
    """JSON fragment for unit.json (run by hand when the section list changes): python3 gen.py --targets"""
    import json
    out = []
    tw = [{"define": "TWIN", "expect": "TWIN", "tiers": ["quick", "thorough"]}]
    for sec in SECTIONS:
        fam = sec.split("_")[0]
        per_s = fam in ("NS2", "SET2", "SUM3")
        t = {"id": sec.lower(), "harness": "h_sm",
             "defines": {"SEC_" + sec: None, "WSEC": {"quick": 0, "thorough": SECNO[sec]}},
             "cbmc_flags": ["--drop-unused-functions"], "twins": tw,
             "timeout": 1500 if per_s else 600, "replay": sec}
        if per_s:
            t["tiers"] = ["thorough"]
        out.append(t)
    # quick tier: the per-S sections of a family are small there; one target per family
    for fam in ("NS2", "SET2", "SUM3"):
        d = {"SEC_%s_%s" % (fam, t.tag): None for t in TYPES}
        d["WSEC"] = 0
        out.append({"id": fam.lower() + "_quick", "harness": "h_sm", "defines": d, "tiers": ["quick"],
                    "cbmc_flags": ["--drop-unused-functions"], "twins": tw, "timeout": 600, "replay": fam})
    print(json.dumps(out, indent=1))


if __name__ == "__main__":
    if len(sys.argv) > 1 and sys.argv[1] == "--targets":
        print_targets()
    else:
        main()
