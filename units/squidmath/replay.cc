// Native replay for the squidmath unit: includes the REAL src/SquidMath.h, instantiates the REAL templates for every
// tuple of the verifier's harness (sm_checks.inc, generated in the build dir on this run) and evaluates the same
// postconditions with __int128 arithmetic on the counterexample's values.  Every check whose inputs appear in the
// counterexample file is replayed (the trace carries the symbolic inputs of all checks of the failing harness);
// exit 1 if any of them violates its postcondition (or UBSan/ASan fires), 0 otherwise.
#include "squid.h"
#include "SquidMath.h"
#include "replay.h"
#include <cstdint>
#include <limits>
#include <optional>

typedef __int128 wide;
typedef int8_t T_i8; typedef int16_t T_i16; typedef int32_t T_i32; typedef int64_t T_i64;
typedef uint8_t T_u8; typedef uint16_t T_u16; typedef uint32_t T_u32; typedef uint64_t T_u64;

static const Cex *cex;
static int ran = 0, failed = 0;

static std::string show(wide v)
{
    if (v == 0) return "0";
    bool neg = v < 0; std::string s;
    unsigned __int128 u = neg ? -(unsigned __int128)v : (unsigned __int128)v;
    while (u) { s.insert(s.begin(), char('0' + (int)(u % 10))); u /= 10; }
    return (neg ? "-" : "") + s;
}

template <class T> static bool get(const char *name, int id, T &out)
{
    const std::string k = std::string(name) + "_" + std::to_string(id);
    auto it = cex->kv.find(k);
    if (it == cex->kv.end() || it->second.empty() || it->second[0] == '@') return false;
    const char *p = it->second.c_str();
    bool neg = *p == '-'; if (neg) ++p;
    unsigned __int128 u = 0;
    for (; *p >= '0' && *p <= '9'; ++p) u = u * 10 + (unsigned)(*p - '0');
    wide w = neg ? -(wide)u : (wide)u;
    out = (T)w;
    if ((wide)out != w) { printf("replay: %s=%s does not fit its type\n", k.c_str(), it->second.c_str()); return false; }
    return true;
}

template <class S> static void optpost(const char *what, int id, const std::optional<S> &r, wide m, bool neg)
{
    const bool ok = !neg && m <= (wide)std::numeric_limits<S>::max();
    ++ran;
    if (r.has_value() != ok || (r.has_value() && (wide)r.value() != m)) {
        ++failed;
        printf("REPLAY-FAIL: check %d %s: exact sum %s, any negative=%d, fits=%d, but has_value=%d value=%s\n", id, what,
               show(m).c_str(), (int)neg, (int)ok, (int)r.has_value(), r.has_value() ? show((wide)r.value()).c_str() : "-");
    }
}
template <class S> static void setpost(const char *what, int id, S var, S ret, wide m, bool neg)
{
    const bool ok = !neg && m <= (wide)std::numeric_limits<S>::max();
    const wide want = ok ? m : (wide)std::numeric_limits<S>::max();
    ++ran;
    if ((wide)var != want || ret != var) {
        ++failed;
        printf("REPLAY-FAIL: check %d %s: exact sum %s, any negative=%d; expected %s stored, got var=%s ret=%s\n", id, what,
               show(m).c_str(), (int)neg, show(want).c_str(), show((wide)var).c_str(), show((wide)ret).c_str());
    }
}

#define TWIN_ON
#define TWIN_OFF
#define RCH_A(id, label)
#define RCH_B(id, label)
#define RCH_C(id, label)
#define CHK_LESS(id, A, B) { T_##A a; T_##B b; if (get("a", id, a) && get("b", id, b)) { ++ran; \
    const bool r = Less(a, b); if (r != ((wide)a < (wide)b)) { ++failed; \
    printf("REPLAY-FAIL: check %d Less<" #A "," #B ">(%s, %s) returned %d\n", id, show(a).c_str(), show(b).c_str(), (int)r); } } }
#define CHK_IS2(id, S, T) { T_##S s; T_##T t; if (get("s", id, s) && get("t", id, t)) \
    optpost<T_##S>("IncreaseSum<" #S "," #T ">(s,t)", id, IncreaseSum(s, t), (wide)s + (wide)t, s < 0 || t < 0); }
#define CHK_IS3(id, S, T, U) { T_##S s; T_##T t; T_##U u; if (get("s", id, s) && get("t", id, t) && get("u", id, u)) \
    optpost<T_##S>("IncreaseSum<" #S "," #T "," #U ">(s,t,u)", id, IncreaseSum(s, t, u), (wide)s + (wide)t + (wide)u, s < 0 || t < 0 || u < 0); }
#define CHK_NS1(id, S, A) { T_##A a; if (get("a", id, a)) \
    optpost<T_##S>("NaturalSum<" #S ">(" #A ")", id, NaturalSum<T_##S>(a), (wide)a, a < 0); }
#define CHK_NS2(id, S, A, B) { T_##A a; T_##B b; if (get("a", id, a) && get("b", id, b)) \
    optpost<T_##S>("NaturalSum<" #S ">(" #A "," #B ")", id, NaturalSum<T_##S>(a, b), (wide)a + (wide)b, a < 0 || b < 0); }
#define CHK_NS3(id, S, A, B, C) { T_##A a; T_##B b; T_##C c; if (get("a", id, a) && get("b", id, b) && get("c", id, c)) \
    optpost<T_##S>("NaturalSum<" #S ">(" #A "," #B "," #C ")", id, NaturalSum<T_##S>(a, b, c), (wide)a + (wide)b + (wide)c, a < 0 || b < 0 || c < 0); }
#define CHK_SET1(id, S, A) { T_##A a; if (get("a", id, a)) { T_##S var = 0; const T_##S ret = SetToNaturalSumOrMax(var, a); \
    setpost<T_##S>("SetToNaturalSumOrMax<" #S ">(var," #A ")", id, var, ret, (wide)a, a < 0); } }
#define CHK_SET2(id, S, A, B) { T_##A a; T_##B b; if (get("a", id, a) && get("b", id, b)) { T_##S var = 0; \
    const T_##S ret = SetToNaturalSumOrMax(var, a, b); \
    setpost<T_##S>("SetToNaturalSumOrMax<" #S ">(var," #A "," #B ")", id, var, ret, (wide)a + (wide)b, a < 0 || b < 0); } }

#define SM_ALL_SECTIONS
static void part_all()
{
#include "sm_checks.inc"
}

int main(int argc, char **argv)
{
    if (argc < 3) return 2;
    Cex c; if (!c.load(argv[2])) return 2;
    cex = &c;
    part_all();
    printf("replayed %d checks of the real templates (section %s), %d failed\n", ran, argv[1], failed);
    if (failed) return 1;
    if (!ran) { printf("no usable inputs in the counterexample\n"); return 0; }
    RP_OK("postconditions hold on these inputs");
}
