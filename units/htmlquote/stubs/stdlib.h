/* minimal <stdlib.h> for cv/stubs/xalloc.c under -nostdinc */
#ifndef CV_STUB_STDLIB_H
#define CV_STUB_STDLIB_H
typedef unsigned long size_t;
void *malloc(size_t);
void *calloc(size_t, size_t);
void free(void *);
#endif
