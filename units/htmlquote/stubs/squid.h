/* stub for squid.h: exactly what src/html/Quoting.cc uses from it (trusted; listed in unit.json) */
#ifndef CV_STUB_SQUID_H
#define CV_STUB_SQUID_H
typedef unsigned long size_t;
#ifdef __cplusplus
extern "C" {
#endif
void *xcalloc(size_t n, size_t sz);      /* compat/xalloc.h: never returns NULL (aborts) -- cv/stubs/xalloc.c */
void free_const(const void *s);          /* compat/xalloc.h: == free */
size_t strlen(const char *s);            /* CBMC library model */
#ifdef __cplusplus
}
#endif
/* compat/xalloc.h, verbatim */
static inline void xfree(const void *p) { if (p) free_const(p); }
#endif
