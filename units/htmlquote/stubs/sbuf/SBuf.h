/* SBuf reduced to an 8-byte value: at most 6 content bytes + length (trusted stub; the only SBuf facts
 * src/html/Quoting.cc uses).  Semantics copied from src/sbuf/SBuf.{h,cc}:
 *   SBuf()                 empty
 *   operator=(const char*) content := the C string (without its NUL)                [SBuf::assign(const char*, npos)]
 *   Printf(fmt, ...)       content := formatted text; modelled NON-variadically for the one call site
 *                          Printf("&#%d;", int); the format string is asserted
 *   isEmpty(), length()    length()==0, number of content bytes
 *   copy(dest, n)          memcpy(dest, content, min(n, length())), returns that count; no NUL is written
 * Every operation asserts that the value fits the 6-byte model, so a change of the real text that needs a longer
 * SBuf fails an obligation instead of being mis-modelled.  All bodies are loop-free (copy() runs inside the loop
 * that carries the loop contract). */
#ifndef CV_STUB_SBUF_H
#define CV_STUB_SBUF_H
class SBuf {
public:
    SBuf() : len_(0) { }
    SBuf(const SBuf &o) { set(o); }
    SBuf &operator=(const SBuf &o) { set(o); return *this; }
    SBuf &operator=(const char *lit) { assign(lit); return *this; }
    bool isEmpty() const { return len_ == 0; }
    size_t length() const { return len_; }

    size_t copy(char *dest, size_t n) const {
        __CPROVER_assert(len_ <= 6, "SBuf stub: value fits the 6-byte model");
        size_t toexport = n < (size_t)len_ ? n : (size_t)len_;
        if (0 < toexport) dest[0] = store_[0];
        if (1 < toexport) dest[1] = store_[1];
        if (2 < toexport) dest[2] = store_[2];
        if (3 < toexport) dest[3] = store_[3];
        if (4 < toexport) dest[4] = store_[4];
        if (5 < toexport) dest[5] = store_[5];
        return toexport;
    }

    SBuf &Printf(const char *fmt, int v) {
        __CPROVER_assert(fmt[0] == '&' && fmt[1] == '#' && fmt[2] == '%' && fmt[3] == 'd' && fmt[4] == ';' && fmt[5] == 0,
                         "SBuf stub: only Printf(\"&#%d;\", int) is modelled");
        __CPROVER_assert(v >= 0 && v <= 999, "SBuf stub: Printf value within 0..999 (fits the 6-byte model)");
        store_[0] = '&'; store_[1] = '#';
        if (v < 10) {
            store_[2] = (char)('0' + v); store_[3] = ';'; len_ = 4;
        } else if (v < 100) {
            store_[2] = (char)('0' + v / 10); store_[3] = (char)('0' + v % 10); store_[4] = ';'; len_ = 5;
        } else {
            store_[2] = (char)('0' + v / 100); store_[3] = (char)('0' + (v / 10) % 10); store_[4] = (char)('0' + v % 10);
            store_[5] = ';'; len_ = 6;
        }
        return *this;
    }

    void assign(const char *lit) {
        unsigned char n = 0;
        bool end = false;
#define CV_SBUF_STEP(k) if (!end) { if (lit[k] == 0) end = true; else { store_[k] = lit[k]; n = (k) + 1; } }
        CV_SBUF_STEP(0) CV_SBUF_STEP(1) CV_SBUF_STEP(2) CV_SBUF_STEP(3) CV_SBUF_STEP(4) CV_SBUF_STEP(5)
#undef CV_SBUF_STEP
        __CPROVER_assert(end || lit[6] == 0, "SBuf stub: assigned literal fits the 6-byte model");
        len_ = n;
    }

    void set(const SBuf &o) {
        store_[0] = o.store_[0]; store_[1] = o.store_[1]; store_[2] = o.store_[2]; store_[3] = o.store_[3];
        store_[4] = o.store_[4]; store_[5] = o.store_[5]; store_[6] = o.store_[6];
        len_ = o.len_;
    }

    char store_[7];
    unsigned char len_;
};
#endif
