// Wrapper TU for src/html/Quoting.cc (tier T2: the real text, C++ front end, stub dependency headers).
// html_Quoting.cc is written into the build directory by the extraction step from the CURRENT /repo text.
//
// Static locals.  CBMC's C++ front end silently DROPS dynamic initialisers of static locals, and the loop-contract pass
// havocs statics.  The extraction rules therefore hoist the four static locals of the real file to the file-scope
// variables below and turn `static T x = init;` into `if (!x) x = init;` with the REAL initialiser text
// (C++: "initialised the first time control passes through the declaration"; both initialisers are never null).
// The reference `escapeSequences` becomes a pointer.
//
// Two build modes (selected by the target's defines, see unit.json "wrap_defines"):
//   default              html_quote calls the real EscapeSequences()      (target table_lemma)
//   -DCV_ABSTRACT_TABLE  html_quote's call of EscapeSequences() is replaced by that function's CONTRACT as proved by
//                        target table_lemma: "returns the static table; every entry is exactly spec_entry_exact".
//                        The table is an arbitrary (havocked) object; each const access observes an entry that
//                        satisfies the contract (assume at the point of use == the universally quantified contract,
//                        html_quote only holds a const reference).  Reason: the concrete 2048-byte table makes
//                        symex/SAT of the html_quote problems explode (symex does not finish).
#include "squid.h"
#include "sbuf/SBuf.h"
#include "spec_table.h"

#ifdef CV_ABSTRACT_TABLE
static inline void cv_assume_entry(const SBuf &e, unsigned long c)
{
    __CPROVER_assume(spec_entry_exact((unsigned char)c, e.len_, e.store_));
}
#define CV_ARRAY_CONST_ACCESS_HOOK(e, i) cv_assume_entry(e, i)
#endif
#include <array>

std::array<SBuf, 256> *cv_escapeMap = nullptr;                 // EscapeSequences()::escapeMap
const std::array<SBuf, 256> *cv_escapeSequences = nullptr;     // html_quote()::escapeSequences (a reference in the real text)

#ifdef CV_ABSTRACT_TABLE
static std::array<SBuf, 256> cv_abs_table;
static const std::array<SBuf, 256> &cv_EscapeSequences_contract()
{
    if (!cv_escapeMap) {
        __CPROVER_havoc_object(&cv_abs_table);                 // arbitrary contents ...
        cv_escapeMap = &cv_abs_table;
    }
    return *cv_escapeMap;                                      // ... constrained entry by entry at each const access
}
#define CV_TABLE_CALL(call) cv_EscapeSequences_contract()
#else
#define CV_TABLE_CALL(call) call
#endif

extern "C" {
char *html_quote_buf = nullptr;                                // html_quote()::buf
size_t html_quote_bufsize = 0;                                 // html_quote()::bufsize
#define buf html_quote_buf
#define bufsize html_quote_bufsize
#include "html/Quoting.h"      /* the real header */
#include "html_Quoting.cc"     /* the real text, extracted */
#undef buf
#undef bufsize

// ---- C-linkage accessors for the sidecar (contract.c is C; it cannot name C++ objects) ----
static const std::array<SBuf, 256> *cv_last = nullptr;
void cv_EscapeSequences(void) { cv_last = &EscapeSequences(); }          // calls the real function
int cv_last_is_map(void) { return cv_last != nullptr && cv_last == cv_escapeMap; }
// raw reads (no access hook): what is stored, not what is assumed
unsigned cv_seq_len(unsigned char c) { return (unsigned)const_cast<std::array<SBuf, 256> *>(cv_last)->elems[c].len_; }
char cv_seq_byte(unsigned char c, unsigned k) { return const_cast<std::array<SBuf, 256> *>(cv_last)->elems[c].store_[k]; }
// state of the hoisted statics
int cv_statics_initial(void) { return cv_escapeMap == nullptr && cv_escapeSequences == nullptr && html_quote_buf == nullptr && html_quote_bufsize == 0; }
void cv_statics_reset(void) { cv_escapeMap = nullptr; cv_escapeSequences = nullptr; html_quote_buf = nullptr; html_quote_bufsize = 0; }
// the state a previous call of html_quote() leaves behind for `escapeSequences` (its initialiser, executed once)
void cv_prior_call_bound_table(void) { if (!cv_escapeSequences) cv_escapeSequences = &CV_TABLE_CALL(EscapeSequences()); }
int cv_table_bound(void) { return cv_escapeSequences != nullptr && cv_escapeSequences == cv_escapeMap; }
void cv_use_bound_table(void) { cv_last = cv_escapeSequences; }
}
