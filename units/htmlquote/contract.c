/* Sidecar contracts for src/html/Quoting.cc: EscapeSequences() and html_quote().
 * Postconditions come from C32: "the HTML-quoted form contains no raw markup metacharacters (less-than, greater-than,
 * quotes, ampersand) other than in entity references, and decoding its entity references returns the original string."
 * Harness-encoded (html_quote allocates a block of symbolic size: --dfcc enforcement does not finish, README). */
#include <stddef.h>
#include <stdlib.h>
#include <string.h>

#ifndef N
#define N 16          /* input bound: string is any NUL-terminated string of length < N */
#endif
#ifndef CV_CAP
#define CV_CAP (6 * N + 2)  /* capacity of the modelled heap blocks (xalloc_guard.c); >= the largest request 6*(N-1)+1 */
#endif

/* ---- specification, written from the property statement ---- */
#include "spec_table.h"   /* spec_is_meta, spec_is_ctl8, spec_must_quote, spec_entry_exact */
static int spec_is_digit(char c) { return c >= '0' && c <= '9'; }

/* Decoder for one unit of quoted text at p: an entity reference (&lt; &gt; &quot; &amp; &apos; or decimal &#d; &#dd; &#ddd;
 * denoting a byte) or one literal byte.  Returns the number of bytes consumed, *out = the byte denoted.
 * An '&' that does not start such a reference would be taken literally -- the alphabet postcondition shows html_quote
 * never emits one.  Never reads past a NUL (each comparison fails on it first). */
static unsigned spec_decode_one(const char *p, unsigned char *out)
{
    if (p[0] == '&') {
        if (p[1] == 'l' && p[2] == 't' && p[3] == ';') { *out = '<'; return 4; }
        if (p[1] == 'g' && p[2] == 't' && p[3] == ';') { *out = '>'; return 4; }
        if (p[1] == 'a' && p[2] == 'm' && p[3] == 'p' && p[4] == ';') { *out = '&'; return 5; }
        if (p[1] == 'q' && p[2] == 'u' && p[3] == 'o' && p[4] == 't' && p[5] == ';') { *out = '"'; return 6; }
        if (p[1] == 'a' && p[2] == 'p' && p[3] == 'o' && p[4] == 's' && p[5] == ';') { *out = '\''; return 6; }
        if (p[1] == '#' && spec_is_digit(p[2])) {
            unsigned v = (unsigned)(p[2] - '0');
            if (p[3] == ';') { *out = (unsigned char)v; return 4; }
            if (spec_is_digit(p[3])) {
                v = v * 10 + (unsigned)(p[3] - '0');
                if (p[4] == ';') { *out = (unsigned char)v; return 5; }
                if (spec_is_digit(p[4])) {
                    v = v * 10 + (unsigned)(p[4] - '0');
                    if (p[5] == ';' && v <= 255) { *out = (unsigned char)v; return 6; }
                }
            }
        }
    }
    *out = (unsigned char)p[0];
    return 1;
}

/* "r[g] is an '&' that starts an entity reference lying wholly inside r[0..lr)" */
static int spec_entity_at(const char *r, size_t g, size_t lr)
{
    return (g + 4 <= lr && r[g + 1] == 'l' && r[g + 2] == 't' && r[g + 3] == ';') ||
           (g + 4 <= lr && r[g + 1] == 'g' && r[g + 2] == 't' && r[g + 3] == ';') ||
           (g + 5 <= lr && r[g + 1] == 'a' && r[g + 2] == 'm' && r[g + 3] == 'p' && r[g + 4] == ';') ||
           (g + 6 <= lr && r[g + 1] == 'q' && r[g + 2] == 'u' && r[g + 3] == 'o' && r[g + 4] == 't' && r[g + 5] == ';') ||
           (g + 6 <= lr && r[g + 1] == 'a' && r[g + 2] == 'p' && r[g + 3] == 'o' && r[g + 4] == 's' && r[g + 5] == ';') ||
           (g + 4 <= lr && r[g + 1] == '#' && spec_is_digit(r[g + 2]) && r[g + 3] == ';') ||
           (g + 5 <= lr && r[g + 1] == '#' && spec_is_digit(r[g + 2]) && spec_is_digit(r[g + 3]) && r[g + 4] == ';') ||
           (g + 6 <= lr && r[g + 1] == '#' && spec_is_digit(r[g + 2]) && spec_is_digit(r[g + 3]) && spec_is_digit(r[g + 4]) && r[g + 5] == ';');
}

#ifndef CV_NATIVE   /* everything below is verifier-only; the native replay includes only the spec functions above */

char *html_quote(const char *);
/* accessors defined in wrap.cc (C linkage) */
void cv_EscapeSequences(void);
int cv_last_is_map(void);
unsigned cv_seq_len(unsigned char c);
char cv_seq_byte(unsigned char c, unsigned k);
int cv_statics_initial(void);
void cv_statics_reset(void);
void cv_prior_call_bound_table(void);
int cv_table_bound(void);
void cv_use_bound_table(void);
extern char *html_quote_buf;
extern size_t html_quote_bufsize;
void *xcalloc(size_t n, size_t sz);      /* xalloc_guard.c: fixed-capacity block, zeroed request, 0x5A guard bytes behind it */
extern size_t cv_xcalloc_size;           /* ghost: size of the most recent request */

size_t g;             /* ghost index: arbitrary; a statement about out[g] is a statement about every byte */

/* the stored entry for c is exactly the specified sequence (raw read of the table object) */
static int entry_exact(unsigned char c)
{
    char s[6];
    s[0] = cv_seq_byte(c, 0); s[1] = cv_seq_byte(c, 1); s[2] = cv_seq_byte(c, 2);
    s[3] = cv_seq_byte(c, 3); s[4] = cv_seq_byte(c, 4); s[5] = cv_seq_byte(c, 5);
    return spec_entry_exact(c, cv_seq_len(c), s);
}

/* ---------- target "table_lemma" (complete: the 256-iteration loop of the real EscapeSequences() is unwound fully,
 * which computes the table from the real code; c is a symbolic byte, so every entry is covered) ---------- */
#if defined(T_TABLE_LEMMA)
void h_table_lemma(void)
{
    unsigned char c, rest0, rest1;
    __CPROVER_assert(cv_statics_initial(), "init: the hoisted static locals start null/0 (first-call state)");
    cv_EscapeSequences();                      /* first call: allocates and fills the table */
    __CPROVER_assert(cv_last_is_map(), "ensures: EscapeSequences returns its (non-null) static table");
    unsigned n = cv_seq_len(c);
    char u[8];
    for (unsigned k = 0; k < 6; k++) u[k] = k < n ? cv_seq_byte(c, k) : 0;
    __CPROVER_assert(entry_exact(c), "ensures: the entry for c is exactly the specified sequence (this is the contract the html_quote targets use)");
    __CPROVER_assert(n <= 6, "ensures: every sequence is at most 6 bytes (html_quote sizes its buffer 6*len+1)");
    __CPROVER_assert(!spec_must_quote(c) || (n >= 4 && u[0] == '&' && u[n - 1] == ';'),
                     "ensures: metacharacters, control bytes and bytes >= 0x7F have a non-empty sequence of the form &...;");
    /* inside the reference only letters, digits and '#': no second '&', no early ';', no < > \" ' and no control byte */
    for (unsigned k = 1; k + 1 < 6; k++)
        __CPROVER_assert(!(spec_must_quote(c) && k + 1 < n) ||
                         ((u[k] >= 'a' && u[k] <= 'z') || spec_is_digit(u[k]) || (u[k] == '#' && k == 1)),
                         "ensures: the interior of a sequence is a name or #digits (prefix-free, no raw metacharacter)");
    __CPROVER_assert(spec_must_quote(c) || n == 0, "ensures: every other byte has an empty sequence (copied as is)");
    /* the unit followed by ANY two bytes decodes to exactly its source byte, consuming exactly the unit */
    unsigned ul = n ? n : 1;
    if (!n) u[0] = (char)c;
    u[ul] = (char)rest0; u[ul + 1] = (char)rest1;
    unsigned char o; unsigned used = spec_decode_one(u, &o);
#ifdef TWIN_LEMMA
    __CPROVER_assert(!(used == ul && o == c), "ensures: TWIN (negated) unit decodes to its source byte");
#else
    __CPROVER_assert(used == ul && o == c, "ensures: the unit for c decodes to c and consumes exactly the unit");
#endif
    /* second call: the early-return path hands back the same, unchanged table */
    cv_EscapeSequences();
    __CPROVER_assert(cv_last_is_map() && cv_seq_len(c) == n, "ensures: a second call returns the same table");
    for (unsigned k = 0; k < 6; k++)
        __CPROVER_assert(!(k < n) || cv_seq_byte(c, k) == u[k], "ensures: a second call leaves the entries unchanged");
#ifdef REACH
    __CPROVER_assert(!(c == '<' && n == 4), "reach: named reference");
    __CPROVER_assert(!(c == 200 && n == 6), "reach: three-digit numeric reference");
    __CPROVER_assert(!(c == 'a' && n == 0), "reach: copied byte");
    __CPROVER_assert(!(c == '\n' && n == 0), "reach: line feed is copied");
#endif
}
#endif

/* ---------- html_quote ----------
 * requires: string is a NUL-terminated string shorter than N; the static state is either the initial one or the one a
 *   previous call leaves behind: table bound (escapeSequences initialised from the real EscapeSequences()), result buffer
 *   NULL/0 or a live heap block of exactly bufsize = 6k+1 bytes (the two are chosen independently: a superset).
 * ensures: result == the static buffer, non-NULL; buffer invariant re-established; table bound with well-shaped entries;
 *   input not written; plus the per-target clauses. */
static char *prior_buf; static size_t prior_size;
static unsigned char snap_c; static unsigned snap_n; static char snap_s[6]; static _Bool snap_valid;
static void hq_requires(char *string)
{
    string[N - 1] = 0;
    cv_statics_reset();
    _Bool later_call, have;
    snap_valid = 0;
    if (later_call) {
        cv_prior_call_bound_table();
        unsigned char c2;                      /* snapshot of an arbitrary entry of the already existing table */
        cv_use_bound_table();
        snap_c = c2; snap_n = cv_seq_len(c2); snap_valid = 1;
        snap_s[0] = cv_seq_byte(c2, 0); snap_s[1] = cv_seq_byte(c2, 1); snap_s[2] = cv_seq_byte(c2, 2);
        snap_s[3] = cv_seq_byte(c2, 3); snap_s[4] = cv_seq_byte(c2, 4); snap_s[5] = cv_seq_byte(c2, 5);
    }
    prior_buf = NULL; prior_size = 0;
    if (have) {
        size_t bs;
        __CPROVER_assume(bs >= 1 && bs <= 6 * (N - 1) + 1 && bs % 6 == 1);   /* sizes are only ever 6*len+1 */
        html_quote_buf = xcalloc(bs, 1);       /* a block left behind by an earlier call (contents irrelevant) */
        html_quote_bufsize = bs;
        prior_buf = html_quote_buf; prior_size = bs;
    }
}
static void hq_ensures_common(const char *string, char *r)
{
    __CPROVER_assert(r != NULL && r == html_quote_buf, "ensures: returns the static buffer, never NULL");
    __CPROVER_assert(__CPROVER_POINTER_OFFSET(html_quote_buf) == 0 && html_quote_bufsize % 6 == 1 &&
                     html_quote_bufsize == (html_quote_buf == prior_buf ? prior_size : cv_xcalloc_size),
                     "ensures: static buffer invariant (bufsize is the requested size of the block, bufsize = 6k+1) re-established");
    __CPROVER_assert(!(g >= html_quote_bufsize && g < CV_CAP) || (unsigned char)r[g] == 0x5A,
                     "ensures: no byte behind the requested bufsize bytes was written (guard bytes intact, ghost index)");
    __CPROVER_assert(cv_table_bound(), "ensures: escapeSequences is bound to the static table");
    cv_use_bound_table();
    __CPROVER_assert(!snap_valid || (cv_seq_len(snap_c) == snap_n && cv_seq_byte(snap_c, 0) == snap_s[0] && cv_seq_byte(snap_c, 1) == snap_s[1] &&
                     cv_seq_byte(snap_c, 2) == snap_s[2] && cv_seq_byte(snap_c, 3) == snap_s[3] && cv_seq_byte(snap_c, 4) == snap_s[4] &&
                     cv_seq_byte(snap_c, 5) == snap_s[5]), "ensures: the table is not written (any entry, snapshot)");
    __CPROVER_assert(string[N - 1] == 0, "ensures: input not written (sentinel)");
}

/* ---------- target "quote_safe": loop invariant => memory safety, termination, size bound, output alphabet ---------- */
#if defined(T_QUOTE_SAFE)
void h_quote_safe(void)
{
    char string[N];
    hq_requires(string);
    char *r = html_quote(string);
    hq_ensures_common(string, r);
    size_t lr = strlen(r), ls = strlen(string);
    __CPROVER_assert(lr <= 6 * ls, "ensures: result is NUL-terminated within 6*strlen(string) bytes");
#ifdef TWIN_ALPHABET
    __CPROVER_assert(!(g < lr) || r[g] == '<' || r[g] == '>' || r[g] == '"' || r[g] == '\'' || r[g] == '&',
                     "ensures: TWIN (negated) no raw markup metacharacter");
#else
    __CPROVER_assert(!(g < lr) || (r[g] != '<' && r[g] != '>' && r[g] != '"' && r[g] != '\''),
                     "ensures: no raw < > \" ' anywhere in the output (ghost index: every byte)");
    __CPROVER_assert(!(g < lr && r[g] == '&') || spec_entity_at(r, g, lr),
                     "ensures: every & in the output starts an entity reference that lies inside the output");
    __CPROVER_assert(!(g < lr) || ((unsigned char)r[g] >= 0x20 && (unsigned char)r[g] <= 0x7E) || r[g] == '\n' || r[g] == '\r' || r[g] == '\t',
                     "ensures: no raw control byte (other than \\n \\r \\t) and no raw 8-bit byte in the output");
#endif
#ifdef REACH
    __CPROVER_assert(!(r[0] == '&' && r[1] == 'l' && r[4] == 'a'), "reach: an entity reference followed by a copied byte");
    __CPROVER_assert(!(lr == 6 * (N - 1)), "reach: maximal expansion");
    __CPROVER_assert(!(r[0] == 0), "reach: empty input");
    __CPROVER_assert(!(html_quote_bufsize > 6 * ls + 1), "reach: an older, larger buffer was reused");
    __CPROVER_assert(!(html_quote_bufsize == 6 * ls + 1 && ls > 0), "reach: buffer (re)allocated");
#endif
}
#endif

/* ---------- target "roundtrip" (bounded by N): decode(html_quote(s)) == s with the spec decoder ---------- */
#if defined(T_ROUNDTRIP)
void h_roundtrip(void)
{
    char x[N];
    x[N - 1] = 0;
    cv_statics_reset();          /* first-call state; buffer reuse is covered by quote_safe */
    char *r = html_quote(x);
    size_t lx = strlen(x), lr = strlen(r);
    __CPROVER_assert(lr < html_quote_bufsize && html_quote_bufsize == cv_xcalloc_size, "ensures: terminated inside the requested block");
    size_t i = 0, j = 0;
    _Bool same = 1;
    while (i < lr && j < N) {     /* at most N-1 units */
        unsigned char o;
        i += spec_decode_one(r + i, &o);
        if (j >= lx || (unsigned char)x[j] != o) same = 0;
        j++;
    }
#ifdef TWIN_ROUNDTRIP
    __CPROVER_assert(!(same && i == lr && j == lx), "ensures: TWIN (negated) round trip");
#else
    __CPROVER_assert(same && i == lr && j == lx, "ensures: decoding the entity references of html_quote(s) returns s");
#endif
#ifdef REACH
    __CPROVER_assert(!(lx == N - 1 && x[0] == '&' && x[1] == '\n' && (unsigned char)x[2] == 0xff), "reach: full-length hostile input");
    __CPROVER_assert(!(lx == 0), "reach: empty input");
#endif
}
#endif

#endif /* CV_NATIVE */
