// Native replay for the htmlquote unit: the REAL src/html/Quoting.cc (current tree) with the REAL SBuf (libsbuf from the
// /repo build), ASan+UBSan, fed the verifier's counterexample; the same postconditions are re-evaluated with the spec
// functions #included from contract.c.
#include "replay.h"
#include <cstdlib>
#include <cstring>
#include <string>
#include <vector>
#define CV_NATIVE 1
#define N 4096
#include "squid.h"
#include REAL_HTML_QUOTING_CC
namespace spec {
#include "contract.c"
}
extern "C" const char *__asan_default_options() { return "detect_leaks=0"; }

static std::string input(const Cex &c, size_t maxlen)
{
    std::string s;
    const char *keys[] = {"string", "x"};
    for (auto k : keys)
        if (c.has(k)) { for (auto v : c.arr(k)) { if (v == 0 || s.size() >= maxlen) break; s.push_back((char)v); } break; }
    return s;
}

static int check(const std::string &s)
{
    char *in = (char *)malloc(s.size() + 1); memcpy(in, s.c_str(), s.size() + 1);   // exact size: ASan sees any over-read
    const char *r = html_quote(in);
    printf("input len=%zu output=\"%s\"\n", s.size(), r);
    size_t lr = strlen(r);
    if (lr > 6 * s.size()) RP_FAIL("output longer than 6*len");
    std::vector<char> b(r, r + lr); b.insert(b.end(), 8, 0);
    for (size_t g = 0; g < lr; ++g) {
        if (r[g] == '<' || r[g] == '>' || r[g] == '"' || r[g] == '\'') RP_FAIL("raw markup metacharacter 0x%02x at %zu", r[g], g);
        if (r[g] == '&' && !spec::spec_entity_at(b.data(), g, lr)) RP_FAIL("'&' at %zu does not start an entity reference", g);
    }
    std::string back;
    size_t i = 0;
    while (i < lr) { unsigned char o; i += spec::spec_decode_one(&b[i], &o); back.push_back((char)o); }
    if (i != lr || back != s) RP_FAIL("decoding the entity references does not return the input");
    free(in);
    return 0;
}

int main(int argc, char **argv)
{
    if (argc < 3) return 2;
    std::string mode = argv[1];
    Cex c; if (!c.load(argv[2])) return 2;
    if (mode == "table") {
        // every entry is observable through html_quote of a one-byte string; replay the counterexample byte, then all bytes
        std::string one(1, (char)c.num("c", 'a'));
        if (one[0] && check(one)) return 1;
        for (int ch = 1; ch < 256; ++ch) if (check(std::string(1, (char)ch))) return 1;
        RP_OK("all 255 one-byte strings quote and decode correctly");
    }
    if (mode == "quote" || mode == "roundtrip") {
        long long bs = c.num("bs", 0);
        if (mode == "quote" && c.num("have", 0) && bs >= 1) {     // recreate the prior static-buffer state
            std::string prime((size_t)((bs - 1) / 6), 'a');
            html_quote(prime.c_str());
        }
        if (check(input(c, 4000))) return 1;
        RP_OK("postconditions hold on this input");
    }
    return 2;
}
