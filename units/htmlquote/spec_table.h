/* The escape table html_quote relies on, as a specification (shared by contract.c [C] and wrap.cc [C++]).
 * Target table_lemma PROVES that the real EscapeSequences() builds exactly this table (every entry, symbolic byte);
 * the html_quote targets then use it as EscapeSequences()'s contract (callee replaced by its proven contract). */
#ifndef CV_SPEC_TABLE_H
#define CV_SPEC_TABLE_H
static int spec_is_meta(unsigned char c) { return c == '<' || c == '>' || c == '"' || c == '\'' || c == '&'; }
/* DESIGN 5 C32 (and the code's own comment): control bytes except \n \r \t and every byte >= 0x7F are quoted too */
static int spec_is_ctl8(unsigned char c) { return (c <= 0x1F || c >= 0x7F) && c != '\n' && c != '\r' && c != '\t'; }
static int spec_must_quote(unsigned char c) { return spec_is_meta(c) || spec_is_ctl8(c); }

/* is (n, s[0..n)) the sequence for byte c?  named references for the five metacharacters, decimal numeric
 * references for control / 8-bit bytes, empty (byte copied as is) otherwise */
static int spec_entry_exact(unsigned char c, unsigned n, const char *s)
{
    if (c == '<') return n == 4 && s[0] == '&' && s[1] == 'l' && s[2] == 't' && s[3] == ';';
    if (c == '>') return n == 4 && s[0] == '&' && s[1] == 'g' && s[2] == 't' && s[3] == ';';
    if (c == '&') return n == 5 && s[0] == '&' && s[1] == 'a' && s[2] == 'm' && s[3] == 'p' && s[4] == ';';
    if (c == '"') return n == 6 && s[0] == '&' && s[1] == 'q' && s[2] == 'u' && s[3] == 'o' && s[4] == 't' && s[5] == ';';
    if (c == '\'') return n == 6 && s[0] == '&' && s[1] == 'a' && s[2] == 'p' && s[3] == 'o' && s[4] == 's' && s[5] == ';';
    if (spec_is_ctl8(c)) {
        /* canonical decimal &#d; &#dd; &#ddd; (no leading zero), stated with multiplications only (no division circuits) */
        if (c < 10) return n == 4 && s[0] == '&' && s[1] == '#' && s[2] == '0' + c && s[3] == ';';
        if (c < 100)
            return n == 5 && s[0] == '&' && s[1] == '#' && s[2] >= '1' && s[2] <= '9' && s[3] >= '0' && s[3] <= '9' &&
                   10 * (s[2] - '0') + (s[3] - '0') == c && s[4] == ';';
        return n == 6 && s[0] == '&' && s[1] == '#' && s[2] >= '1' && s[2] <= '9' && s[3] >= '0' && s[3] <= '9' &&
               s[4] >= '0' && s[4] <= '9' && 100 * (s[2] - '0') + 10 * (s[3] - '0') + (s[4] - '0') == c && s[5] == ';';
    }
    return n == 0;
}
#endif
