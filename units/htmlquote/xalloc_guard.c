/* Assumed model of compat/xalloc.cc for this unit (trusted; replaces cv/stubs/xalloc.c here).
 * xcalloc(n, sz): never NULL (the real one aborts).  Modelled as a heap block of FIXED capacity CV_CAP whose first n*sz bytes
 * are zero and whose remaining bytes are guard bytes 0x5A; the requested size is recorded in cv_xcalloc_size.
 * Why: a block of symbolic size forces CBMC's array theory on every buffer access and the html_quote problems do not finish;
 * a constant-size block is handled field by field.  Soundness of the bound check then rests on the harness asserting
 * (ghost index) that every guard byte is intact after the call and that the result is NUL-terminated inside the
 * requested size: a write past the requested size -- including the classic stray terminator -- changes a guard byte;
 * a read past it finds no terminator.  Requests larger than CV_CAP fail an assertion (never silently truncated). */
#include <stdlib.h>
#ifndef CV_CAP
#define CV_CAP 64
#endif
size_t cv_xcalloc_size;          /* ghost: size of the most recent request */
void *xcalloc(size_t n, size_t sz)
{
    __CPROVER_assert(sz == 1 && n <= CV_CAP, "xcalloc stub: request fits the modelled capacity");
    char *p = malloc(CV_CAP);
    __CPROVER_assume(p != 0);
    for (size_t k = 0; k < CV_CAP; k++) p[k] = k < n ? 0 : 0x5A;
    cv_xcalloc_size = n;
    return p;
}
void free_const(const void *p) { free((void *)p); }
