/* Sidecar (harness-encoded) contracts for the mgrpasswd unit (C61).
 * Property: "Protected actions additionally require the configured password, and actions disabled by configuration are
 * never performed."  Specification below is written from squid.conf's cachemgr_passwd documentation:
 *   password "disable"  -> the action is disabled (never performed, whatever the client supplies)
 *   password "none"     -> the action may be performed without a password
 *   any other password  -> the client must supply exactly that password (an empty supplied password never matches)
 *   no line for the action -> allowed only if the action is not password-protected by default (isPwReq false) */
#include <stddef.h>

#ifndef N
#define N 8           /* every string (configured and supplied password) is NUL-terminated within N bytes */
#endif

static int spec_streq(const char *a, const char *b)
{
    for (size_t i = 0; i < N; i++) {
        if (a[i] != b[i]) return 0;
        if (a[i] == 0) return 1;
    }
    return 0;
}
static int spec_is(const char *a, const char *lit)      /* lit is shorter than N or the answer is no */
{
    for (size_t i = 0; i < N; i++) {
        if (a[i] != lit[i]) return 0;
        if (a[i] == 0) return 1;
    }
    return 0;
}

/* 1 = the action may be performed */
static int spec_allowed(const char *configured, int isPwReq, const char *supplied)
{
    if (configured == NULL) return !isPwReq;
    if (spec_is(configured, "disable")) return 0;
    if (spec_is(configured, "none")) return 1;
    if (supplied == NULL || supplied[0] == 0) return 0;
    return spec_streq(supplied, configured);
}

/* 0 disabled, 1 public, 2 hidden, 3 protected */
static int spec_protection(const char *configured, int isPwReq)
{
    if (configured == NULL) return isPwReq ? 2 : 1;
    if (spec_is(configured, "disable")) return 0;
    if (spec_is(configured, "none")) return 1;
    return 3;
}
static int protection_code(const char *s)
{
    if (s == NULL) return -1;
    if (spec_is(s, "disabled")) return 0;
    if (spec_is(s, "public")) return 1;
    if (spec_is(s, "hidden")) return 2;
    if (spec_is(s, "protected")) return 3;
    return -1;
}

#ifndef CV_NATIVE
extern int mp_CheckPassword(char *configured, int isPwReq, const char *supplied, const char *actionName);
extern const char *mp_ActionProtection(char *configured, int isPwReq, const char *actionName);
extern const char *g_asked_action;
extern int g_lookups;

#if N < 10
#error "N must be at least 10 so that the literals \"protected\"/\"disabled\" fit"
#endif

/* input domain: any configured password (or none) and any supplied password (or none), each NUL-terminated within N bytes */
#define DOMAIN                                                   \
    char cfgbuf[N], supbuf[N];                                   \
    static const char action[] = "objects";                     \
    _Bool have_cfg, have_sup; int isPwReq;                       \
    cfgbuf[N - 1] = 0; supbuf[N - 1] = 0;                        \
    char *configured = have_cfg ? cfgbuf : NULL;                 \
    const char *supplied = have_sup ? supbuf : NULL;             \
    g_lookups = 0;

#ifdef T_CHECK
void h_check(void)
{
    DOMAIN
    int r = mp_CheckPassword(configured, isPwReq, supplied, action);
    int allowed = spec_allowed(configured, isPwReq, supplied);
#ifdef TWIN_CHECK
    __CPROVER_assert((r == 0) != (allowed != 0), "ensures: TWIN (negated) CheckPassword() == 0 <=> allowed");
#else
    __CPROVER_assert((r == 0) == (allowed != 0), "ensures: CheckPassword() == 0 <=> the specification allows the action");
#endif
    __CPROVER_assert(!(have_cfg && spec_is(cfgbuf, "disable")) || r != 0, "ensures: a disabled action is never allowed, whatever is supplied");
    __CPROVER_assert(!(have_cfg && !spec_is(cfgbuf, "none") && r == 0) || (have_sup && supbuf[0] != 0 && spec_streq(supbuf, cfgbuf)),
                     "ensures: with a configured password, success needs exactly that password, non-empty");
    __CPROVER_assert(!(!have_cfg && isPwReq) || r != 0, "ensures: a protected action without configured password is refused");
    __CPROVER_assert(g_lookups == 1 && g_asked_action == action, "ensures: the password is looked up once, for this action's name");
    __CPROVER_assert(cfgbuf[N - 1] == 0 && supbuf[N - 1] == 0, "ensures: inputs not written (sentinels)");
#ifdef REACH
    __CPROVER_assert(!(r == 0 && have_cfg && !spec_is(cfgbuf, "none")), "reach: accepted with the right password");
    __CPROVER_assert(!(r != 0 && have_cfg && have_sup && supbuf[0] != 0 && !spec_is(cfgbuf, "disable")), "reach: refused with a wrong password");
    __CPROVER_assert(!(r != 0 && have_cfg && spec_is(cfgbuf, "disable") && have_sup && spec_is(supbuf, "disable")), "reach: disabled although 'disable' was supplied");
    __CPROVER_assert(!(r == 0 && !have_cfg), "reach: public action without configuration");
    __CPROVER_assert(!(r == 0 && have_cfg && spec_is(cfgbuf, "none") && isPwReq), "reach: 'none' opens a protected action");
    __CPROVER_assert(!(have_cfg && have_sup && cfgbuf[N - 2] != 0 && supbuf[N - 2] != 0 && r == 0), "reach: full-length passwords accepted");
#endif
}
#endif

#ifdef T_PROT
void h_prot(void)
{
    DOMAIN
    const char *p = mp_ActionProtection(configured, isPwReq, action);
    int code = protection_code(p);
#ifdef TWIN_PROT
    __CPROVER_assert(code != spec_protection(configured, isPwReq), "ensures: TWIN (negated) ActionProtection()");
#else
    __CPROVER_assert(code == spec_protection(configured, isPwReq), "ensures: ActionProtection() == disabled/public/hidden/protected per the specification");
#endif
    /* agreement with the password check: what the menu shows is what CheckPassword enforces */
    int r = mp_CheckPassword(configured, isPwReq, supplied, action);
    __CPROVER_assert(!(code == 0) || r != 0, "ensures: 'disabled' => CheckPassword refuses whatever is supplied");
    __CPROVER_assert(!(code == 1) || r == 0, "ensures: 'public' => CheckPassword allows whatever is supplied");
    __CPROVER_assert(!(code == 2) || r != 0, "ensures: 'hidden' => CheckPassword refuses whatever is supplied");
    __CPROVER_assert(!(code == 3) || ((r == 0) == (have_sup && supbuf[0] != 0 && spec_streq(supbuf, cfgbuf))),
                     "ensures: 'protected' => CheckPassword allows exactly the configured password");
#ifdef REACH
    __CPROVER_assert(!(code == 0), "reach: disabled");
    __CPROVER_assert(!(code == 1 && have_cfg), "reach: public by 'none'");
    __CPROVER_assert(!(code == 2), "reach: hidden");
    __CPROVER_assert(!(code == 3 && r == 0), "reach: protected and opened");
#endif
}
#endif
#endif /* CV_NATIVE */
