// Wrapper TU for the mgrpasswd unit: stubs + REAL function texts + extern "C" entry points.
#include "stubs.h"
#include "stringcmp.inc"     // nilCmp, String::operator !=, String::cmp(String const &)   (src/String.cc)
#include "mgr.inc"           // CacheManager::CheckPassword, CacheManager::ActionProtection  (src/cache_manager.cc)

extern "C" {

// configured: NULL = no cachemgr_passwd line matches the action; supplied: NULL = no password in the request
int mp_CheckPassword(char *configured, int isPwReq, const char *supplied, const char *actionName)
{
    Mgr::ActionProfile prof;
    prof.name = actionName;
    prof.isPwReq = isPwReq != 0;
    Mgr::Command cmd;
    cmd.profile = &prof;
    String pw(supplied);
    cmd.params.password.len_ = pw.len_;
    cmd.params.password.buf_ = pw.buf_;
    g_configured = configured;
    CacheManager m;
    return m.CheckPassword(cmd);
}

const char *mp_ActionProtection(char *configured, int isPwReq, const char *actionName)
{
    Mgr::ActionProfile prof;
    prof.name = actionName;
    prof.isPwReq = isPwReq != 0;
    Mgr::ActionProfilePointer p = &prof;
    g_configured = configured;
    CacheManager m;
    return m.ActionProtection(p);
}

}
