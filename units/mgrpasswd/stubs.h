// Stub surroundings for the mgrpasswd slices (C61).  TRUSTED models; they declare exactly what the sliced bodies touch.
// The password decision itself (CheckPassword, ActionProtection) and the String comparison it relies on
// (String::operator!=, String::cmp(String const&), nilCmp) are REAL text cut from /repo at run time.
#ifndef MP_STUBS_H
#define MP_STUBS_H

#ifndef MP_NATIVE
typedef unsigned long size_t;
extern "C" int strcmp(const char *, const char *);     // CBMC's library model (loop unwound to the string bound N)
extern "C" size_t strlen(const char *);
extern "C" int strncmp(const char *, const char *, size_t);
extern "C" int strcasecmp(const char *, const char *);
extern "C" int strncasecmp(const char *, const char *, size_t);
#define assert(EX) __CPROVER_assert((EX), "assert(" #EX ")")   // squid's assert() aborts; here it is a proof obligation
#endif

#define debugs(SECTION, LEVEL, CONTENT) ((void)0)

// src/SquidString.h: len_/buf_ and the accessors are as in the real class; the converting constructor is a NON-OWNING
// view (the real one copies strlen(aString) bytes via allocAndFill) -- same size() and termedBuf() contents.
class String
{
public:
    typedef size_t size_type;
    String() : len_(0), buf_(nullptr) {}
    String(char const *aString) : len_(0), buf_(nullptr)
    {
        if (aString) {
            len_ = strlen(aString);
            buf_ = const_cast<char *>(aString);
        }
    }
    size_type size() const { return len_; }
    char const *termedBuf() const { return buf_; }
    bool operator !=(String const &) const;       // REAL body (src/String.cc)
    int cmp(String const &) const;                // REAL body (src/String.cc)
    int cmp(char const *) const;                  // REAL body; not called by today's CheckPassword
    int cmp(char const *, size_type count) const; // REAL body; ditto
    int caseCmp(char const *) const;              // REAL body; ditto
    int caseCmp(char const *, size_type count) const; // REAL body; ditto
    size_type len_;
    char *buf_;
};

namespace Mgr
{
class ActionPasswordList;
// src/mgr/ActionProfile.h
class ActionProfile
{
public:
    typedef ActionProfile *Pointer;   // real: RefCount<ActionProfile>; "!= nullptr" and "->" mean the same on a raw pointer
    const char *name;
    bool isPwReq;
};
typedef ActionProfile::Pointer ActionProfilePointer;
// src/mgr/ActionParams.h, src/mgr/Command.h
class ActionParams
{
public:
    String password;
};
class Command
{
public:
    ActionProfilePointer profile;
    ActionParams params;
};
}

struct SquidConfigStub { Mgr::ActionPasswordList *passwd_list; };
static SquidConfigStub Config;

extern "C" {
    char *g_configured;          // what cachemgr_passwd configures for the action: NULL (no line matches) or the password text
    const char *g_asked_action;  // ghost: the action name PasswdGet was asked about
    int g_lookups;
}

class CacheManager
{
public:
    const char *ActionProtection(const Mgr::ActionProfilePointer &profile);   // REAL body
    int CheckPassword(const Mgr::Command &cmd);                               // REAL body
    // ASSUMED: the real PasswdGet walks Config.passwd_list (range-for over an SBufList: outside the front end) and
    // returns the passwd of the first line naming the action or "all", else nullptr.
#ifndef MP_REAL_PASSWDGET
    char *PasswdGet(Mgr::ActionPasswordList *, const char *action)
    {
        g_asked_action = action;
        if (g_lookups < 1000) ++g_lookups;
        return g_configured;
    }
#else
    // units/mgrpasswdlist: the REAL body (src/cache_manager.cc) is compiled instead of the assumed one
    char *PasswdGet(Mgr::ActionPasswordList *, const char *action);
#endif
};

#endif
