// Native replay for the mgrpasswd unit (T3): the same slices and stubs compiled by g++ (ASan+UBSan); the specification of
// contract.c is re-evaluated on the counterexample's strings.
#include "replay.h"
#include <cassert>
#include <cstring>
#define MP_NATIVE 1
#define CV_NATIVE 1
#define N 4096
#include "wrap.cc"
namespace spec {
#include "contract.c"
}
using namespace spec;

static bool get(const Cex &c, const char *key, const char *flag, char *out)
{
    memset(out, 0, N);
    size_t i = 0;
    for (auto x : c.arr(key)) { if (x == 0 || i >= N - 1) break; out[i++] = (char)x; }
    return c.num(flag) != 0;
}

int main(int argc, char **argv)
{
    if (argc < 3) return 2;
    std::string mode = argv[1];
    Cex c; if (!c.load(argv[2])) return 2;
    static char cfg[N], sup[N];
    bool have_cfg = get(c, "cfgbuf", "have_cfg", cfg), have_sup = get(c, "supbuf", "have_sup", sup);
    int isPwReq = (int)c.num("isPwReq");
    char *configured = have_cfg ? cfg : nullptr;
    const char *supplied = have_sup ? sup : nullptr;
    int r = mp_CheckPassword(configured, isPwReq, supplied, "objects");
    int allowed = spec_allowed(configured, isPwReq, supplied);
    printf("configured=%s%s%s isPwReq=%d supplied=%s%s%s -> CheckPassword=%d (spec allows: %d)\n", have_cfg ? "\"" : "", have_cfg ? cfg : "(none)", have_cfg ? "\"" : "",
           isPwReq, have_sup ? "\"" : "", have_sup ? sup : "(none)", have_sup ? "\"" : "", r, allowed);
    if ((r == 0) != (allowed != 0)) RP_FAIL("CheckPassword disagrees with the specification");
    if (mode == "action_protection") {
        const char *p = mp_ActionProtection(configured, isPwReq, "objects");
        printf("ActionProtection=%s\n", p ? p : "(null)");
        int code = protection_code(p);
        if (code != spec_protection(configured, isPwReq)) RP_FAIL("ActionProtection disagrees with the specification");
        if ((code == 0 || code == 2) && r == 0) RP_FAIL("menu says disabled/hidden but CheckPassword allows");
        if (code == 1 && r != 0) RP_FAIL("menu says public but CheckPassword refuses");
    }
    RP_OK("postconditions hold on this input");
}
