/* Sidecar (harness-encoded) contracts for the mgrpasswdlist unit (C61): the REAL CacheManager::PasswdGet and, on top of
 * it, the REAL CheckPassword / ActionProtection (no assumed lookup any more).
 * cachemgr_passwd documentation (squid.conf): "cachemgr_passwd password action action ..." -- the password of a line
 * applies to the actions named on it; the keyword "all" stands for every action; lines are consulted in configuration
 * order, so the FIRST line that names the action (or "all") decides.
 * Bounds (this is a BOUNDED check): at most PG_K lines, at most PG_M action names per line, action names of at most L
 * bytes without NUL, password strings NUL-terminated within N bytes. */
#include <stddef.h>
#include <stdlib.h>
#ifndef N
#define N 8
#endif
#ifndef PG_K
#define PG_K 2
#endif
#ifndef PG_M
#define PG_M 2
#endif
#ifndef L
#define L 4
#endif
#define PG_CONTRACT_OUTER_NATIVE
#ifndef CV_NATIVE
#define CV_NATIVE 1
#undef PG_CONTRACT_OUTER_NATIVE
#endif
#include "contract.c"      /* units/mgrpasswd/contract.c: spec_streq, spec_is, spec_allowed, spec_protection, protection_code */
#ifndef PG_CONTRACT_OUTER_NATIVE
#undef CV_NATIVE
#endif

/* the bytes t[0..len) are exactly the C string s */
static int name_is(const char *t, unsigned len, const char *s)
{
    for (unsigned i = 0; i < L + 1; i++) {
        if (i == len) return s[i] == 0;
        if (s[i] == 0 || t[i] != s[i]) return 0;
    }
    return 0;
}
/* index of the first line (in list order) one of whose action names is `asked` or "all"; -1 if there is none */
static int spec_first_line(int count, const unsigned *nacts, const unsigned *alens, const char *acts, const char *asked)
{
    for (int k = 0; k < PG_K; k++)
        for (int m = 0; m < PG_M; m++)
            if (k < count && (unsigned)m < nacts[k]) {
                const char *t = &acts[(k * PG_M + m) * L];
                unsigned len = alens[k * PG_M + m];
                if (name_is(t, len, asked) || name_is(t, len, "all")) return k;
            }
    return -1;
}

#ifndef CV_NATIVE
void pg_set_entry(int k, char *passwd, unsigned nactions);
void pg_set_action(int k, int m, char *text, unsigned len);
void pg_link(int count);
char *mp_PasswdGet(const char *action);
int mp_CheckPassword_list(int isPwReq, const char *supplied, const char *actionName);
const char *mp_ActionProtection_list(int isPwReq, const char *actionName);

/* builds the configured list from the harness's arrays; every action name ends at the end of its own heap block
 * (an SBuf's buffer is not NUL-terminated: a read past the name is an out-of-bounds read) */
static void build(int count, char *pws, const unsigned *nacts, const unsigned *alens, const char *acts)
{
    for (int k = 0; k < PG_K; k++) {
        pg_set_entry(k, &pws[k * N], nacts[k]);
        for (int m = 0; m < PG_M; m++) {
            unsigned len = alens[k * PG_M + m];
            char *blk = malloc(L);
            __CPROVER_assume(blk != NULL);          /* harness input building: cbmc's malloc may fail */
            /* the name occupies the LAST len bytes of its own L-byte block: a read */
            char *p = blk + (L - len);              /* a read past the name's end leaves the block (pointer check)  */
            for (unsigned i = 0; i < L; i++)
                if (i < len) p[i] = acts[(k * PG_M + m) * L + i];
            pg_set_action(k, m, p, len);
        }
    }
    pg_link(count);
}
static int no_nul_names(const unsigned *alens, const char *acts)
{
    for (int j = 0; j < PG_K * PG_M; j++)
        for (unsigned i = 0; i < L; i++)
            if (i < alens[j] && acts[j * L + i] == 0) return 0;
    return 1;
}
static int lens_ok(int count, const unsigned *nacts, const unsigned *alens)
{
    if (count < 0 || count > PG_K) return 0;
    for (int k = 0; k < PG_K; k++) if (nacts[k] > PG_M) return 0;
    for (int j = 0; j < PG_K * PG_M; j++) if (alens[j] > L) return 0;
    return 1;
}

/* input domain: any list within the bounds, any asked action name, any supplied password (or none) */
#define LIST_DOMAIN                                                                      \
    int count; unsigned nacts[PG_K]; unsigned alens[PG_K * PG_M];                        \
    char acts[PG_K * PG_M * L]; char pws[PG_K * N]; char asked[L + 1];                   \
    asked[L] = 0;                                                                        \
    for (int k = 0; k < PG_K; k++) pws[k * N + N - 1] = 0;                               \
    __CPROVER_assume(lens_ok(count, nacts, alens));                                      \
    __CPROVER_assume(no_nul_names(alens, acts));                                         \
    build(count, pws, nacts, alens, acts);                                               \
    int first = spec_first_line(count, nacts, alens, acts, asked);                       \
    char *configured = first < 0 ? NULL : &pws[first * N];

#ifdef T_PG
void h_passwdget(void)
{
    LIST_DOMAIN
    char *r = mp_PasswdGet(asked);
#ifdef TWIN_PG
    __CPROVER_assert(r != configured, "ensures: TWIN (negated) PasswdGet result");
#else
    __CPROVER_assert(r == configured, "ensures: PasswdGet returns the password of the FIRST line that names the action or \"all\", nullptr if no line does");
#endif
    __CPROVER_assert(asked[L] == 0 && pws[N - 1] == 0, "ensures: inputs not written (sentinels)");
#ifdef REACH
    __CPROVER_assert(!(r != NULL && first == 1 && nacts[0] == PG_M && nacts[1] == PG_M && !name_is(&acts[(PG_M + PG_M - 1) * L - 0 * L], alens[PG_M], asked)), "reach: found on the second line after a full first line");
    __CPROVER_assert(!(r != NULL && first == 0 && alens[0] == 3 && acts[0] == 'a' && asked[0] != 'a'), "reach: matched by the keyword all");
    __CPROVER_assert(!(r == NULL && count == PG_K && nacts[0] > 0), "reach: no line names the action");
    __CPROVER_assert(!(r == NULL && count == 0), "reach: empty list");
    __CPROVER_assert(!(r == &pws[0] && count == 2 && nacts[1] > 0 && name_is(&acts[PG_M * L], alens[PG_M], asked) && asked[0] != 0), "reach: two lines name the action, the first wins");
    __CPROVER_assert(!(r != NULL && asked[L - 1] != 0), "reach: full-length action name found");
#endif
}
#endif

#ifdef T_CHECKL
void h_check_list(void)
{
    LIST_DOMAIN
    char supbuf[N]; _Bool have_sup; int isPwReq;
    supbuf[N - 1] = 0;
    const char *supplied = have_sup ? supbuf : NULL;
    int r = mp_CheckPassword_list(isPwReq, supplied, asked);
    int allowed = spec_allowed(configured, isPwReq, supplied);
#ifdef TWIN_CHECKL
    __CPROVER_assert((r == 0) != (allowed != 0), "ensures: TWIN (negated) CheckPassword() == 0 <=> allowed");
#else
    __CPROVER_assert((r == 0) == (allowed != 0), "ensures: CheckPassword() == 0 <=> the specification allows the action under the password of the first line naming it (or \"all\")");
#endif
    __CPROVER_assert(!(configured && spec_is(configured, "disable")) || r != 0, "ensures: an action whose first matching line says disable is never allowed, whatever is supplied or configured on later lines");
    __CPROVER_assert(!(configured && !spec_is(configured, "none") && r == 0) || (have_sup && supbuf[0] != 0 && spec_streq(supbuf, configured)),
                     "ensures: with a configured password, success needs exactly that password, non-empty");
    __CPROVER_assert(!(!configured && isPwReq) || r != 0, "ensures: a protected action that no line names is refused");
#ifdef REACH
    __CPROVER_assert(!(r == 0 && first == 1 && !spec_is(configured, "none")), "reach: accepted with the second line's password");
    __CPROVER_assert(!(r != 0 && first == 0 && count == 2 && have_sup && spec_streq(supbuf, &pws[N]) && supbuf[0] != 0 && !spec_is(configured, "disable")), "reach: a later line's password is refused");
    __CPROVER_assert(!(r != 0 && configured && spec_is(configured, "disable") && alens[first * PG_M] == 3 && acts[first * PG_M * L] == 'a' && asked[0] == 'm'), "reach: disabled through the keyword all");
    __CPROVER_assert(!(r == 0 && !configured), "reach: public action that no line names");
#endif
}
#endif

#ifdef T_PROTL
#if N < 10
#error "N must be at least 10 so that the literals \"protected\"/\"disabled\" fit"
#endif
void h_prot_list(void)
{
    LIST_DOMAIN
    int isPwReq;
    const char *p = mp_ActionProtection_list(isPwReq, asked);
    int code = protection_code(p);
#ifdef TWIN_PROTL
    __CPROVER_assert(code != spec_protection(configured, isPwReq), "ensures: TWIN (negated) ActionProtection()");
#else
    __CPROVER_assert(code == spec_protection(configured, isPwReq), "ensures: ActionProtection() == disabled/public/hidden/protected per the password of the first line naming the action (or \"all\")");
#endif
#ifdef REACH
    __CPROVER_assert(!(code == 0 && first == 1), "reach: disabled by the second line");
    __CPROVER_assert(!(code == 1 && configured), "reach: public by none");
    __CPROVER_assert(!(code == 2), "reach: hidden");
    __CPROVER_assert(!(code == 3 && first == 0 && count == 2), "reach: protected by the first of two lines");
#endif
}
#endif
#endif /* CV_NATIVE */
