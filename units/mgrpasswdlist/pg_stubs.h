// Stub surroundings for the REAL CacheManager::PasswdGet (C61): list types that keep the real iteration shape.
// TRUSTED models.  REAL text compiled on top of them: PasswdGet (src/cache_manager.cc), SBuf::compare(const char*,...),
// SBuf::compare(const SBuf&,...), SBuf::operator== / != (src/sbuf/SBuf.cc) and the in-class compare/cmp/caseCmp
// shorthands of src/sbuf/SBuf.h (cut into the class body below).
#ifndef PG_STUBS_H
#define PG_STUBS_H
#define MP_REAL_PASSWDGET 1
#include "stubs.h"            // units/mgrpasswd/stubs.h: String, Mgr::ActionProfile/Command, Config, class CacheManager

#ifndef PG_K
#define PG_K 2                // capacity of the password list (cachemgr_passwd lines)
#endif
#ifndef PG_M
#define PG_M 2                // capacity of one line's action list
#endif

#ifndef MP_NATIVE
extern "C" int memcmp(const void *, const void *, size_t);          // CBMC library models
extern "C" int tolower(int);
#endif
int memcasecmp(const char *, const char *, size_t);                 // declared only: not called by the checked text today
template <class T> inline T min(T a, T b) { return a < b ? a : b; }   // squid's min() (src/base/... returns a const reference: by value here, the front end aborts on references to temporaries)

typedef enum { caseSensitive, caseInsensitive } SBufCaseSensitive;  // src/sbuf/SBuf.h
struct SBufStats { unsigned long compareSlow; unsigned long compareFast; };   // the two counters the sliced bodies bump
class MemBlob { public: typedef unsigned int size_type; char *mem; };  // real: mem is the start of the backing store

// src/sbuf/SBuf.h: store_ (real: MemBlob::Pointer = RefCount, here a raw pointer), off_, len_ as in the real class;
// the C-string constructor is a NON-OWNING view of strlen(S) bytes (the real one copies them).
class SBuf
{
public:
    typedef MemBlob::size_type size_type;
    static const size_type npos = 0xffffffff;
    SBuf() : off_(0), len_(0) { blob_.mem = nullptr; store_ = &blob_; }
    explicit SBuf(const char *S) : off_(0), len_(0) { blob_.mem = const_cast<char *>(S); store_ = &blob_; len_ = (size_type)strlen(S); }
#include "sbuf_api.inc"       // REAL declarations and inline shorthands: compare / cmp / caseCmp for SBuf and C-string arguments
    bool operator ==(const SBuf &S) const;     // REAL body
    bool operator !=(const SBuf &S) const;     // REAL body
    SBuf substr(size_type pos, size_type n = npos) const;   // declared only: reached only by compare(SBuf, n != npos)
    size_type length() const { return len_; }
    char *buf() const { return (store_->mem + off_); }
    static SBufStats stats;
    int id;
    MemBlob blob_;            // stub only: the view's own blob header
    MemBlob *store_;
    size_type off_;
    size_type len_;
};

// src/sbuf/forward.h: typedef std::list<SBuf> SBufList -- here a fixed-capacity array with pointer iterators: begin()/end()/
// operator++/operator* have the std::list meaning for a forward walk (which is all PasswdGet does)
class SBufList
{
public:
    typedef SBuf *iterator;
    SBufList() : n(0) {}
    iterator begin() { return items; }
    iterator end() { return items + n; }
    SBuf items[PG_M];
    unsigned n;
};

namespace Mgr
{
// src/mgr/ActionPasswordList.h: the same three members
class ActionPasswordList
{
public:
    ActionPasswordList() : passwd(nullptr), next(nullptr) {}
    char *passwd;
    SBufList actions;
    ActionPasswordList *next;
};
}
#endif
