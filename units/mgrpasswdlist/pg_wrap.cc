// Wrapper TU of the mgrpasswdlist unit: stubs + REAL function texts + extern "C" entry points for the C sidecar.
#include "pg_stubs.h"
SBufStats SBuf::stats;
#include "stringcmp.inc"     // nilCmp, String::operator !=, String::cmp family              (src/String.cc)
#include "sbufcmp.inc"       // SBuf::compare x2, SBuf::operator ==, SBuf::operator !=       (src/sbuf/SBuf.cc)
#include "mgr.inc"           // CacheManager::CheckPassword, ::ActionProtection, ::PasswdGet  (src/cache_manager.cc)

static Mgr::ActionPasswordList pg_nodes[PG_K];
static MemBlob pg_blobs[PG_K * PG_M];      // backing-store headers of the action names

extern "C" {

// line k of the list: password text and number of action names
void pg_set_entry(int k, char *passwd, unsigned nactions)
{
    pg_nodes[k].passwd = passwd;
    pg_nodes[k].actions.n = nactions;
}
// action name m of line k: a view of text[0..len) (not NUL-terminated, as an SBuf's buffer)
void pg_set_action(int k, int m, char *text, unsigned len)
{
    SBuf &w = pg_nodes[k].actions.items[m];
    MemBlob *blob = &pg_blobs[k * PG_M + m];
    blob->mem = text;
    w.store_ = blob;
    w.off_ = 0;
    w.len_ = len;
}
// chain lines 0..count-1 in order; Config.passwd_list = the first one (or nullptr)
void pg_link(int count)
{
    for (int k = 0; k < PG_K; ++k)
        pg_nodes[k].next = (k + 1 < PG_K && k + 1 < count) ? &pg_nodes[k + 1] : nullptr;
    Config.passwd_list = count > 0 ? &pg_nodes[0] : nullptr;
}
char *mp_PasswdGet(const char *action)
{
    CacheManager m;
    return m.PasswdGet(Config.passwd_list, action);
}
int mp_CheckPassword_list(int isPwReq, const char *supplied, const char *actionName)
{
    Mgr::ActionProfile prof;
    prof.name = actionName;
    prof.isPwReq = isPwReq != 0;
    Mgr::Command cmd;
    cmd.profile = &prof;
    String pw(supplied);
    cmd.params.password.len_ = pw.len_;
    cmd.params.password.buf_ = pw.buf_;
    CacheManager m;
    return m.CheckPassword(cmd);
}
const char *mp_ActionProtection_list(int isPwReq, const char *actionName)
{
    Mgr::ActionProfile prof;
    prof.name = actionName;
    prof.isPwReq = isPwReq != 0;
    Mgr::ActionProfilePointer p = &prof;
    CacheManager m;
    return m.ActionProtection(p);
}

}
