// Native replay for the mgrpasswdlist unit: the same slices (REAL PasswdGet / CheckPassword / ActionProtection / SBuf and String
// comparisons) and stubs compiled by g++ (ASan+UBSan); the list is rebuilt from the counterexample's arrays (every action name in
// an exact-size heap block) and the specification of pg_contract.c / contract.c is re-evaluated.
#include "replay.h"
#include <cassert>
#include <cstring>
#include <cctype>
#define MP_NATIVE 1
#define CV_NATIVE 1
static Cex *g_cex;
#define PG_K 8
#define PG_M 8
int memcasecmp(const char *a, const char *b, size_t n) { return strncasecmp(a, b, n); }
#include "pg_wrap.cc"
SBuf SBuf::substr(size_type pos, size_type n) const   // native stand-in (view); only compare(SBuf, n != npos) calls it
{
    SBuf r; if (pos > len_) pos = len_; r.blob_.mem = buf() + pos; r.store_ = &r.blob_; r.len_ = (n < len_ - pos) ? n : len_ - pos; return r;
}
#undef PG_K
#undef PG_M
namespace spec {
#define N 4096
#include "pg_contract.c"
}
int main(int argc, char **argv)
{
    if (argc < 3) return 2;
    std::string mode = argv[1];
    Cex c; if (!c.load(argv[2])) return 2;
    // the verifier's dimensions are not in the trace: recover them from the array sizes
    auto nacts = c.arr("nacts"), alens = c.arr("alens"), acts = c.arr("acts"), pws = c.arr("pws"), asked = c.arr("asked"), sup = c.arr("supbuf");
    const size_t K = nacts.size(); if (!K || alens.size() % K) RP_FAIL("cannot read the list from the counterexample");
    const size_t M = alens.size() / K, Lc = acts.size() / (K * M), Nc = pws.size() / K;
    long count = c.num("count"); if (count < 0) count = 0; if ((size_t)count > K) count = K;
    std::vector<std::string> pw(K); std::string ask, supplied;
    for (size_t k = 0; k < K; ++k) for (size_t i = 0; i < Nc && pws[k * Nc + i]; ++i) pw[k].push_back((char)pws[k * Nc + i]);
    for (auto x : asked) { if (!x) break; ask.push_back((char)x); }
    for (auto x : sup) { if (!x) break; supplied.push_back((char)x); }
    const bool have_sup = c.num("have_sup") != 0; const int isPwReq = (int)c.num("isPwReq");
    int first = -1;
    for (size_t k = 0; k < K; ++k) {
        size_t n = std::min<size_t>((size_t)nacts[k], M);
        pg_set_entry((int)k, const_cast<char *>(pw[k].c_str()), (unsigned)n);
        printf("line %zu%s: passwd \"%s\" actions", k, (long)k < count ? "" : " (not linked)", pw[k].c_str());
        for (size_t m = 0; m < n; ++m) {
            size_t len = std::min<size_t>((size_t)alens[k * M + m], Lc);
            char *p = (char *)malloc(len ? len : 1);
            std::string t;
            for (size_t i = 0; i < len; ++i) { p[i] = (char)acts[(k * M + m) * Lc + i]; t.push_back(p[i]); }
            pg_set_action((int)k, (int)m, p, (unsigned)len);
            printf(" \"%s\"", t.c_str());
            if ((long)k < count && first < 0 && (t == ask || t == "all")) first = (int)k;
        }
        printf("\n");
    }
    pg_link((int)count);
    const char *configured = first < 0 ? nullptr : pw[first].c_str();
    char *r = mp_PasswdGet(ask.c_str());
    printf("PasswdGet(\"%s\") = %s%s; first line naming it: %d\n", ask.c_str(), r ? "passwd of some line: " : "nullptr", r ? r : "", first);
    if (r != configured) RP_FAIL("PasswdGet does not return the password of the first line that names the action or \"all\"");
    if (mode == "check_password_list") {
        int rc = mp_CheckPassword_list(isPwReq, have_sup ? supplied.c_str() : nullptr, ask.c_str());
        int allowed = spec::spec_allowed(configured, isPwReq, have_sup ? supplied.c_str() : nullptr);
        printf("CheckPassword = %d, spec allows: %d\n", rc, allowed);
        if ((rc == 0) != (allowed != 0)) RP_FAIL("CheckPassword disagrees with the specification");
    }
    if (mode == "action_protection_list") {
        const char *p = mp_ActionProtection_list(isPwReq, ask.c_str());
        if (spec::protection_code(p) != spec::spec_protection(configured, isPwReq)) RP_FAIL("ActionProtection disagrees with the specification");
    }
    RP_OK("postconditions hold on this input");
}
