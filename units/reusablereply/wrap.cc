// Wrapper TU for the reusablereply unit: stubs + REAL texts + one extern "C" entry point.
#include "stubs.h"
#include "rr_io.h"
#include "reusable.inc"    // HttpStateData::ReuseDecision::make, HttpStateData::reusableReply  (src/http.cc)

static_assert(HttpStateData::ReuseDecision::reuseNot == RR_reuseNot, "Answers");
static_assert(HttpStateData::ReuseDecision::cachePositively == RR_cachePositively, "Answers");
static_assert(HttpStateData::ReuseDecision::cacheNegatively == RR_cacheNegatively, "Answers");
static_assert(HttpStateData::ReuseDecision::doNotCacheButShare == RR_doNotCacheButShare, "Answers");

extern "C" {

int g_rr_returned;        // the function's return value
int g_rr_has_reason;      // decision.reason != nullptr afterwards

// returns decision.answer; in[] as described in rr_io.h; contentType: nullptr or a NUL-terminated string
int rr_reusableReply(const long *in, const char *contentType)
{
    HttpHdrCc reqCc;
    reqCc.noStore = in[IN_REQ_NO_STORE] != 0;
    reqCc.noCacheParams = reqCc.noCachePlain = reqCc.private_ = reqCc.public_ = reqCc.mustRevalidate = reqCc.sMaxAge = false;
    HttpRequest req;
    req.cache_control = in[IN_REQ_HAVE_CC] ? &reqCc : nullptr;
    req.flags.auth = in[IN_REQ_AUTH] != 0;
    req.flags.authSent = in[IN_REQ_AUTH_SENT] != 0;

    HttpHdrCc repCc;
    repCc.noStore = in[IN_REP_NO_STORE] != 0;
    repCc.noCacheParams = in[IN_REP_NO_CACHE_PARAMS] != 0;
    repCc.noCachePlain = in[IN_REP_NO_CACHE_PLAIN] != 0;
    repCc.private_ = in[IN_REP_PRIVATE] != 0;
    repCc.public_ = in[IN_REP_PUBLIC] != 0;
    repCc.mustRevalidate = in[IN_REP_MUST_REVALIDATE] != 0;
    repCc.sMaxAge = in[IN_REP_S_MAXAGE] != 0;
    HttpReply rep;
    rep.header.contentType = contentType;
    rep.cache_control = in[IN_REP_HAVE_CC] ? &repCc : nullptr;
    rep.sline.status_ = (Http::StatusCode)(int)in[IN_STATUS];
    rep.date = in[IN_DATE];
    rep.expires = in[IN_EXPIRES];

    MemObject mem;
    StoreEntry e;
    e.flags = (uint16_t)(in[IN_ENTRY_FLAGS] & 0xFFFF);
    e.mem_obj = &mem;

    RefreshPattern pat;
    pat.flags.store_stale = in[IN_PAT_STORE_STALE] != 0;
    pat.flags.ignore_no_store = in[IN_PAT_IGNORE_NO_STORE] != 0;
    pat.flags.ignore_private = in[IN_PAT_IGNORE_PRIVATE] != 0;
    g_pattern = in[IN_HAVE_PATTERN] ? &pat : nullptr;
    g_refresh_cachable = in[IN_REFRESH_CACHABLE] != 0;
    g_limits_calls = 0;
    Config.negativeTtl = in[IN_NEGATIVE_TTL];

    HttpStateData h;
    h.theFinalReply = &rep;
    h.entry = &e;
    h.request = in[IN_HAVE_REQUEST] ? &req : nullptr;
    h.ignoreCacheControl = in[IN_IGNORE_CC] != 0;
    h.surrogateNoStore = in[IN_SURROGATE_NO_STORE] != 0;
    h.sawDateGoBack = in[IN_DATE_WENT_BACK] != 0;

    HttpStateData::ReuseDecision decision;
    g_rr_returned = (int)h.reusableReply(decision);
    g_rr_has_reason = decision.reason != nullptr;
    return (int)decision.answer;
}

}
