/* Input vector of the reusablereply wrapper, shared by wrap.cc (C++) and contract.c (C): in[] holds every input the
 * sliced HttpStateData::reusableReply() reads, one long each (booleans: zero / non-zero). */
#ifndef RR_IO_H
#define RR_IO_H
enum {
    IN_ENTRY_FLAGS,        /* StoreEntry::flags (uint16_t): all 16 bits */
    IN_DATE_WENT_BACK,     /* sawDateGoBack */
    IN_SURROGATE_NO_STORE, /* surrogateNoStore */
    IN_IGNORE_CC,          /* ignoreCacheControl (set only by Surrogate-Control processing) */
    IN_HAVE_REQUEST,       /* request != nullptr */
    IN_REQ_HAVE_CC,        /* request->cache_control != nullptr */
    IN_REQ_NO_STORE,       /* request Cache-Control: no-store */
    IN_REQ_AUTH,           /* request->flags.auth      (Authorization header present) */
    IN_REQ_AUTH_SENT,      /* request->flags.authSent  (squid itself added credentials) */
    IN_REP_HAVE_CC,        /* reply has a Cache-Control header */
    IN_REP_NO_CACHE_PARAMS,/* reply CC: no-cache="..." */
    IN_REP_NO_CACHE_PLAIN, /* reply CC: no-cache (no parameters) */
    IN_REP_NO_STORE,
    IN_REP_PRIVATE,
    IN_REP_PUBLIC,
    IN_REP_MUST_REVALIDATE,
    IN_REP_S_MAXAGE,
    IN_HAVE_PATTERN,       /* refreshLimits() found a refresh_pattern (or the implicit default rule) */
    IN_PAT_IGNORE_NO_STORE,/* its flags (refresh_pattern options; all off by default) */
    IN_PAT_IGNORE_PRIVATE,
    IN_PAT_STORE_STALE,
    IN_STATUS,             /* reply status code: any int */
    IN_REFRESH_CACHABLE,   /* refreshIsCachable(entry) */
    IN_DATE,               /* reply Date (time_t) */
    IN_EXPIRES,            /* reply Expires (time_t) */
    IN_NEGATIVE_TTL,       /* Config.negativeTtl (default 0) */
    IN_COUNT
};
/* HttpStateData::ReuseDecision::Answers as declared in src/http.h; the wrapper static-asserts the values */
enum { RR_reuseNot = 0, RR_cachePositively = 1, RR_cacheNegatively = 2, RR_doNotCacheButShare = 3 };
#endif
