/* Harness-encoded contract for the reusablereply unit (C11): the storability decision HttpStateData::reusableReply().
 * Property C11: "With default settings, Squid never serves from cache a response that was sent with Cache-Control
 * no-store or private, or that answered a request carrying Cache-Control no-store. The same applies to a response to a
 * request with Authorization credentials, unless that response allows shared caching (public, must-revalidate or
 * s-maxage)."
 * What the kernel can say: the decision handed to haveParsedReplyHeaders() is never cachePositively / cacheNegatively
 * (the only two answers that give the entry a public key), and it is reuseNot (private, not even shared with collapsed
 * clients) unless the entry had ALREADY been released (RELEASE_REQUEST), where the function answers doNotCacheButShare
 * before looking at any header. */
#include <stddef.h>
#include "rr_io.h"
#include "entry_flags_enum.inc"     /* REAL enum text (src/enums.h): RELEASE_REQUEST */

static int on(long v) { return v != 0; }
static int released(const long *in) { return (in[IN_ENTRY_FLAGS] & (1L << RELEASE_REQUEST)) != 0; }

/* "default settings": no Surrogate-Control driven ignoreCacheControl and no refresh_pattern override option */
static int default_settings(const long *in)
{
    return !on(in[IN_IGNORE_CC]) &&
           (!on(in[IN_HAVE_PATTERN]) || (!on(in[IN_PAT_IGNORE_NO_STORE]) && !on(in[IN_PAT_IGNORE_PRIVATE]) && !on(in[IN_PAT_STORE_STALE])));
}
static int reply_no_store(const long *in) { return on(in[IN_REP_HAVE_CC]) && on(in[IN_REP_NO_STORE]); }
static int reply_private(const long *in) { return on(in[IN_REP_HAVE_CC]) && on(in[IN_REP_PRIVATE]); }
static int request_no_store(const long *in) { return on(in[IN_HAVE_REQUEST]) && on(in[IN_REQ_HAVE_CC]) && on(in[IN_REQ_NO_STORE]); }
static int authenticated(const long *in) { return on(in[IN_HAVE_REQUEST]) && (on(in[IN_REQ_AUTH]) || on(in[IN_REQ_AUTH_SENT])); }
/* RFC 9111 3.5: public, must-revalidate, s-maxage.  This build (USE_HTTP_VIOLATIONS) also accepts a parameterless
 * no-cache, which squid treats as must-revalidate (the entry is stored but revalidated on every use). */
static int reply_allows_shared_auth(const long *in)
{
    return on(in[IN_REP_HAVE_CC]) && (on(in[IN_REP_PUBLIC]) || on(in[IN_REP_MUST_REVALIDATE]) || on(in[IN_REP_S_MAXAGE]) ||
                                      on(in[IN_REP_NO_CACHE_PLAIN]));
}
static int forbidden_by_property(const long *in)
{
    return reply_no_store(in) || reply_private(in) || request_no_store(in) || (authenticated(in) && !reply_allows_shared_auth(in));
}
static int never_public(int answer) { return answer != RR_cachePositively && answer != RR_cacheNegatively; }

#ifndef CV_NATIVE
extern int rr_reusableReply(const long *in, const char *contentType);
extern int g_rr_returned, g_rr_has_reason;

void h_reusable(void)
{
    long in[IN_COUNT];
    char ct[32];
    _Bool have_ct;
    ct[31] = 0;
    int answer = rr_reusableReply(in, have_ct ? ct : NULL);

    __CPROVER_assert(answer >= 0 && answer <= 3 && g_rr_returned == answer && g_rr_has_reason,
                     "ensures: a decision is always made (one of the four answers, with a reason) and returned");
    /* ---- C11, default settings ---- */
    __CPROVER_assert(!(default_settings(in) && forbidden_by_property(in)) || never_public(answer),
                     "ensures: default settings, no-store/private/request no-store/unshareable auth => never cachePositively or cacheNegatively");
#ifdef TWIN_REUSE
    __CPROVER_assert(!(default_settings(in) && forbidden_by_property(in) && !released(in)) || answer != RR_reuseNot,
                     "ensures: TWIN (negated) forbidden => reuseNot");
#else
    __CPROVER_assert(!(default_settings(in) && forbidden_by_property(in) && !released(in)) || answer == RR_reuseNot,
                     "ensures: default settings, forbidden response on a not-yet-released entry => reuseNot");
#endif
    __CPROVER_assert(!(forbidden_by_property(in) && released(in)) || answer == RR_doNotCacheButShare,
                     "ensures: already released entry => doNotCacheButShare (never public)");
    /* ---- stronger: the ONLY ways around each rule are the named override options ---- */
    __CPROVER_assert(!(!on(in[IN_IGNORE_CC]) && (reply_no_store(in) || request_no_store(in)) &&
                       !(on(in[IN_HAVE_PATTERN]) && on(in[IN_PAT_IGNORE_NO_STORE]))) || never_public(answer),
                     "ensures: no-store is honoured unless ignoreCacheControl or refresh_pattern ignore-no-store");
    __CPROVER_assert(!(!on(in[IN_IGNORE_CC]) && reply_private(in) &&
                       !(on(in[IN_HAVE_PATTERN]) && on(in[IN_PAT_IGNORE_PRIVATE]))) || never_public(answer),
                     "ensures: private is honoured unless ignoreCacheControl or refresh_pattern ignore-private");
    __CPROVER_assert(!(authenticated(in) && (on(in[IN_IGNORE_CC]) || !reply_allows_shared_auth(in))) || never_public(answer),
                     "ensures: authenticated transactions are never made public without public/must-revalidate/s-maxage(/no-cache), whatever the overrides");
    /* ---- the function is not trivially negative: an ordinary cacheable 200 is cached ---- */
    __CPROVER_assert(!(!forbidden_by_property(in) && !released(in) && !on(in[IN_DATE_WENT_BACK]) && !on(in[IN_SURROGATE_NO_STORE]) &&
                       !(on(in[IN_REP_HAVE_CC]) && on(in[IN_REP_NO_CACHE_PARAMS])) && !have_ct && !(authenticated(in) && on(in[IN_IGNORE_CC])) &&
                       in[IN_STATUS] == 200 && on(in[IN_REFRESH_CACHABLE])) || answer == RR_cachePositively,
                     "ensures: an unencumbered 200 that the refresh rules call cacheable is cached positively");
    __CPROVER_assert(ct[31] == 0, "ensures: Content-Type value not written (sentinel)");
#ifdef REACH
    __CPROVER_assert(!(answer == RR_cachePositively), "reach: cachePositively");
    __CPROVER_assert(!(answer == RR_cacheNegatively), "reach: cacheNegatively");
    __CPROVER_assert(!(answer == RR_doNotCacheButShare && !released(in)), "reach: doNotCacheButShare by status");
    __CPROVER_assert(!(answer == RR_reuseNot && reply_no_store(in) && default_settings(in)), "reach: reuseNot for reply no-store");
    __CPROVER_assert(!(answer == RR_cachePositively && reply_no_store(in)), "reach: ignore-no-store override caches a no-store reply");
    __CPROVER_assert(!(answer == RR_cachePositively && authenticated(in)), "reach: authenticated but public reply cached");
    __CPROVER_assert(!(answer == RR_reuseNot && have_ct && !forbidden_by_property(in) && in[IN_STATUS] == 200 && !on(in[IN_DATE_WENT_BACK]) &&
                       !on(in[IN_SURROGATE_NO_STORE]) && !on(in[IN_REP_HAVE_CC])), "reach: multipart/x-mixed-replace refused");
    __CPROVER_assert(!(answer == RR_cachePositively && in[IN_STATUS] == 302), "reach: 302 with Expires > Date cached");
#endif
}
#endif
