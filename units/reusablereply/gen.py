#!/usr/bin/env python3
"""reusablereply/gen.py: run-time checks that the two things stubs.h states about the build are still true in the repo."""
import os, re, sys
repo = os.environ["VERIF_REPO"]
def read(p):
    try:
        return open(os.path.join(repo, p), errors="replace").read()
    except OSError:
        return None
ac = read("include/autoconf.h")
if ac is None:
    print("DROP: include/autoconf.h not present in this checkout: USE_HTTP_VIOLATIONS=1 (configure default) is assumed")
elif not re.search(r"^#define USE_HTTP_VIOLATIONS 1\s*$", ac, re.M):
    sys.stderr.write("include/autoconf.h does not define USE_HTTP_VIOLATIONS 1; stubs.h assumes it\n"); sys.exit(1)
d = read("src/defines.h")
if d is None or "#define EBIT_TEST(flag, bit)    ((flag) & ((1L<<(bit))))" not in d:
    sys.stderr.write("src/defines.h: EBIT_TEST differs from the copy in stubs.h\n"); sys.exit(1)
print("DROP: src/defines.h EBIT_TEST and autoconf.h USE_HTTP_VIOLATIONS are restated in stubs.h (checked equal at extraction time)")
