// Native replay for the reusablereply unit (T3): same slice + stubs compiled by g++ (ASan+UBSan); contract.c's predicates
// are re-evaluated on the counterexample's input vector.
#include "replay.h"
#include <cstdint>
#include <ctime>
#include <strings.h>
#define RR_NATIVE 1
#define CV_NATIVE 1
#include "wrap.cc"
namespace spec {
#include "contract.c"
}
using namespace spec;

int main(int argc, char **argv)
{
    if (argc < 3) return 2;
    Cex c; if (!c.load(argv[2])) return 2;
    long in[IN_COUNT] = {0};
    auto v = c.arr("in");
    for (size_t i = 0; i < v.size() && i < IN_COUNT; i++) in[i] = (long)v[i];
    char ct[32] = {0};
    auto cv = c.arr("ct");
    for (size_t i = 0; i < cv.size() && i < 31; i++) ct[i] = (char)cv[i];
    bool have_ct = c.num("have_ct") != 0;
    int answer = rr_reusableReply(in, have_ct ? ct : nullptr);
    static const char *names[] = {"reuseNot", "cachePositively", "cacheNegatively", "doNotCacheButShare"};
    printf("status=%ld released=%d ignoreCC=%d reply{cc=%d no-store=%d private=%d public=%d must-reval=%d s-maxage=%d no-cache=%d} request{no-store=%d auth=%d} "
           "pattern{present=%d ignore-no-store=%d ignore-private=%d} -> %s\n",
           in[IN_STATUS], released(in), on(in[IN_IGNORE_CC]), on(in[IN_REP_HAVE_CC]), on(in[IN_REP_NO_STORE]), on(in[IN_REP_PRIVATE]), on(in[IN_REP_PUBLIC]),
           on(in[IN_REP_MUST_REVALIDATE]), on(in[IN_REP_S_MAXAGE]), on(in[IN_REP_NO_CACHE_PLAIN]), request_no_store(in), authenticated(in),
           on(in[IN_HAVE_PATTERN]), on(in[IN_PAT_IGNORE_NO_STORE]), on(in[IN_PAT_IGNORE_PRIVATE]), (answer >= 0 && answer <= 3) ? names[answer] : "?");
    if (answer < 0 || answer > 3 || g_rr_returned != answer || !g_rr_has_reason) RP_FAIL("no proper decision");
    if (default_settings(in) && forbidden_by_property(in)) {
        if (!never_public(answer)) RP_FAIL("default settings: a response the property forbids to reuse would be made public (cached)");
        if (!released(in) && answer != RR_reuseNot) RP_FAIL("default settings: forbidden response not answered reuseNot");
    }
    if (!on(in[IN_IGNORE_CC]) && (reply_no_store(in) || request_no_store(in)) && !(on(in[IN_HAVE_PATTERN]) && on(in[IN_PAT_IGNORE_NO_STORE])) && !never_public(answer))
        RP_FAIL("no-store not honoured without an override");
    if (!on(in[IN_IGNORE_CC]) && reply_private(in) && !(on(in[IN_HAVE_PATTERN]) && on(in[IN_PAT_IGNORE_PRIVATE])) && !never_public(answer))
        RP_FAIL("private not honoured without an override");
    if (authenticated(in) && (on(in[IN_IGNORE_CC]) || !reply_allows_shared_auth(in)) && !never_public(answer))
        RP_FAIL("authenticated response made public without public/must-revalidate/s-maxage");
    if (!forbidden_by_property(in) && !released(in) && !on(in[IN_DATE_WENT_BACK]) && !on(in[IN_SURROGATE_NO_STORE]) &&
        !(on(in[IN_REP_HAVE_CC]) && on(in[IN_REP_NO_CACHE_PARAMS])) && !have_ct && !(authenticated(in) && on(in[IN_IGNORE_CC])) &&
        in[IN_STATUS] == 200 && on(in[IN_REFRESH_CACHABLE]) && answer != RR_cachePositively)
        RP_FAIL("an unencumbered cacheable 200 is not cached");
    RP_OK("postconditions hold on this input");
}
