// Stub surroundings for the reusablereply slice (C11).  TRUSTED models declaring exactly what the sliced body touches.
// REAL text (cut at run time): HttpStateData::reusableReply, HttpStateData::ReuseDecision::make, the Answers enum (http.h),
// the Http::StatusCode enum, the StoreEntry flag enum.
#ifndef RR_STUBS_H
#define RR_STUBS_H

#ifndef RR_NATIVE
typedef long time_t;
typedef unsigned short uint16_t;
typedef unsigned long size_t;
extern "C" int strncasecmp(const char *, const char *, size_t);    // CBMC library model; 25 iterations, constant bound
#endif

#define USE_HTTP_VIOLATIONS 1                               // as in /repo/include/autoconf.h (checked by gen.py)
#define debugs(SECTION, LEVEL, CONTENT) ((void)0)
#define EBIT_TEST(flag, bit)    ((flag) & ((1L<<(bit))))    // src/defines.h, verbatim (checked by gen.py)

#include "entry_flags_enum.inc"      // REAL: enum { ENTRY_SPECIAL, ..., RELEASE_REQUEST, ... };   (src/enums.h)
namespace Http
{
#include "statuscode_enum.inc"       // REAL: typedef enum { scNone = 0, ... } StatusCode;        (src/http/StatusCode.h)
enum class HdrType { CONTENT_TYPE }; // only the enumerator the body names; the stub getStr() ignores its value
}

// src/HttpHdrCc.h: the real predicates are one-line bit tests on the parsed directive mask; here each is a symbolic input
class HttpHdrCc
{
public:
    bool hasNoStore() const { return noStore; }
    bool hasNoCacheWithParameters() const { return noCacheParams; }
    bool hasNoCacheWithoutParameters() const { return noCachePlain; }
    bool hasPrivate() const { return private_; }
    bool hasPublic() const { return public_; }
    bool hasMustRevalidate() const { return mustRevalidate; }
    bool hasSMaxAge() const { return sMaxAge; }
    bool noStore, noCacheParams, noCachePlain, private_, public_, mustRevalidate, sMaxAge;
};

class HttpHeader
{
public:
    const char *getStr(Http::HdrType) const { return contentType; }   // assumed: the Content-Type field value or nullptr
    const char *contentType;
};

class StatusLineStub
{
public:
    Http::StatusCode status() const { return status_; }
    Http::StatusCode status_;
};

class HttpReply
{
public:
    HttpHeader header;
    HttpHdrCc *cache_control;
    StatusLineStub sline;
    time_t date;
    time_t expires;
};

class RequestFlags
{
public:
    bool auth;
    bool authSent;
};

class HttpRequest
{
public:
    HttpHdrCc *cache_control;
    RequestFlags flags;
};

class MemObject
{
public:
    const char *storeId() const { return nullptr; }   // only handed to refreshLimits()
};

class StoreEntry
{
public:
    uint16_t flags;
    MemObject *mem_obj;
};

// src/RefreshPattern.h: the flags the body can ask about (REFRESH_OVERRIDE(flag))
class RefreshPattern
{
public:
    struct {
        bool store_stale;
        bool ignore_no_store;
        bool ignore_private;
    } flags;
};

static const RefreshPattern *g_pattern;   // what refreshLimits() answers for this entry's URL: a pattern or nullptr
static bool g_refresh_cachable;
static int g_limits_calls;
static const RefreshPattern *refreshLimits(const char *) { if (g_limits_calls < 1000) ++g_limits_calls; return g_pattern; }
static bool refreshIsCachable(const StoreEntry *) { return g_refresh_cachable; }

struct SquidConfigStub { time_t negativeTtl; };
static SquidConfigStub Config;

class HttpStateData
{
public:
    // src/http.h: nested decision record.  The enum is REAL text; entry/statusCode ("for debugging") are omitted.
    class ReuseDecision
    {
    public:
#include "answers_enum.inc"          // REAL: enum Answers { reuseNot = 0, cachePositively, cacheNegatively, doNotCacheButShare };
        ReuseDecision() : answer(reuseNot), reason(nullptr) {}          // real ctor: same two initialisers (+ debugging members)
        Answers make(const Answers ans, const char *why);               // REAL body (src/http.cc)
        Answers answer;
        const char *reason;
    };
    ReuseDecision::Answers reusableReply(ReuseDecision &decision);   // REAL body (src/http.cc)
    HttpReply *finalReply() { return theFinalReply; }                 // real: Client::finalReply() asserts and returns theFinalReply
    HttpReply *theFinalReply;
    StoreEntry *entry;
    HttpRequest *request;      // real: HttpRequestPointer (RefCount); "request &&" and "request->" mean the same on a raw pointer
    bool ignoreCacheControl;
    bool surrogateNoStore;
    bool sawDateGoBack;
};

#endif
