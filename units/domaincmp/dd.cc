// Wrapper TU of the domaincmp unit (C41, set level): surroundings + the REAL comparison functions of
// src/acl/DomainData.cc (dd.inc, cut at run time) + extern "C" entry points for the C sidecar.
// matchDomainName itself is the REAL body (mdn.c, C mode, same slice as units/matchdomain); its declaration --
// including the default argument `flags = mdnNone` that the two-argument calls below rely on -- is the real text of
// src/anyp/Uri.h (mdn_decl.h), only wrapped in extern "C" so that it links to the C-mode TU.
typedef unsigned long size_t;
extern "C" size_t strlen(const char *);
#include "mdn_enum.h"
#include "mdn_decl.h"

namespace Acl
{
// src/acl/SplayInserter.h declares `template <class DataValue> class SplayInserter` with `using Value = DataValue` and
// private static Compare/IsSubset; DomainData.cc defines the explicit specialisations for char*.  Explicit member
// specialisations are outside the C++ front end (goto-cc 6.11 aborts), so the char* instance is compiled as a member
// of this plain class (two must-fire rewrites per function: drop `template <>`, rename the qualifier).  TRUSTED glue.
class SplayInserter_charp
{
public:
    typedef char *Value;
    static int Compare(const Value &a, const Value &b);     // REAL body
    static bool IsSubset(const Value &a, const Value &b);   // REAL body
};
}

#include "dd.inc"   // aclHostDomainCompare, Acl::SplayInserter<char*>::Compare, ::IsSubset  (REAL text)

extern "C" {
// the SPLAYCMP used by ACLDomainData::match(): domains.find(h, aclHostDomainCompare)
int dc_lookup(char *host, char *stored) { return aclHostDomainCompare(host, stored); }
// the SPLAYCMP used by Acl::SplayInserter<char*>::Merge(): storage.insert(newItem, &Compare)
int dc_compare(char *a, char *b) { return Acl::SplayInserter_charp::Compare(a, b); }
int dc_issubset(char *a, char *b) { return Acl::SplayInserter_charp::IsSubset(a, b) ? 1 : 0; }
}

// value normalisation done by ACLDomainData::parse() before a token is stored (real text, cut at run time)
#include "dd_norm.inc"
