/* Sidecar contract for the comparison functions of src/acl/DomainData.cc (C41, set level):
 *   aclHostDomainCompare                      -- lookup comparator of ACLDomainData::match()
 *   Acl::SplayInserter<char*>::Compare        -- insertion comparator of Merge()
 *   Acl::SplayInserter<char*>::IsSubset       -- which of two overlapping values Merge() drops
 * Harness-encoded.  matchDomainName underneath is the REAL body, fully unwound over N-bounded strings.
 * The splay tree template (include/splay.h) and Merge() itself are NOT verified here: the targets prove the facts about
 * the comparators that a binary search tree needs (see the `ensures:` texts), for all strings shorter than N.
 *
 * Meaning of a configured value v (property statement): v = ".x" matches x and every host ending with ".x"; any other
 * v matches only itself (ignoring case; matchDomainName removes ALL leading dots of the host first).
 * A value is WELL-FORMED when it is non-empty, is not ".", and does not start with "..".                            */
#include <stddef.h>
#ifndef N
#define N 6
#endif
#define CV_NATIVE 1            /* take only the spec functions (low, cv_strlen, spec_suffix_eq, spec_match) of the sibling unit */
#include "contract.c"          /* = units/matchdomain/contract.c (on the include path) */
#undef CV_NATIVE

int dc_lookup(char *host, char *stored);
int dc_compare(char *a, char *b);
int dc_issubset(char *a, char *b);

static int sgn(int x) { return (x > 0) - (x < 0); }
static int wf(const char *v) { return v[0] != 0 && !(v[0] == '.' && (v[1] == '.' || v[1] == 0)); }
/* host x (after removal of its leading dots) is matched by value v */
static int spec_in(const char *x, const char *v)
{
    long k = 0;
    while (k < N - 1 && x[k] == '.') k++;
    return spec_match(x + k, cv_strlen(x + k), v, cv_strlen(v));
}
/* for WELL-FORMED values: every host matched by a is matched by b.
 *   b = "y" (one name): only a = "y";   b = ".y": a = "y", "x.y", ".y" or ".x.y", i.e. a without its dot is matched by b */
static int spec_sub(const char *a, const char *b)
{
    if (b[0] != '.') return a[0] != '.' && spec_in(a, b);
    return spec_in(a[0] == '.' ? a + 1 : a, b);
}

char hs[N], as[N], bs[N], ns[N];      /* copies of the inputs for the counterexample trace (native replay reads them) */
static void trace3(const char *h, const char *a, const char *b)
{ for (int ti = 0; ti < N; ti++) { hs[ti] = h[ti]; as[ti] = a[ti]; bs[ti] = b[ti]; } }
static void trace_n(const char *n) { for (int ti = 0; ti < N; ti++) ns[ti] = n[ti]; }

/* ---- lookup comparator: 0 exactly when the host matches the stored value ---- */
#if defined(T_LOOKUP)
void h_lookup(void)
{
    char h[N], d[N], e[N];
    h[N - 1] = 0; d[N - 1] = 0;
    for (int i = 0; i < N; i++) e[i] = 0;
    int r = dc_lookup(h, d);
    trace3(h, d, e);
    int m = spec_in(h, d);
#ifdef TWIN_LOOKUP
    __CPROVER_assert((r == 0) != (m != 0), "ensures: TWIN (negated) lookup comparator 0 iff match");
#else
    __CPROVER_assert(!(r == 0) || m, "ensures: lookup comparator returns 0 => the host matches the stored value (statement's meaning)");
    __CPROVER_assert(!m || r == 0, "ensures: the host matches the stored value => lookup comparator returns 0");
#endif
    __CPROVER_assert(h[N - 1] == 0 && d[N - 1] == 0, "ensures: inputs not written (sentinels)");
#ifdef REACH
    __CPROVER_assert(!(r == 0 && d[0] == '.' && cv_strlen(h) > cv_strlen(d)), "reach: sub-domain of a dotted value found");
    __CPROVER_assert(!(r == 0 && d[0] != '.' && h[0] == 'A'), "reach: exact name found ignoring case");
    __CPROVER_assert(!(r < 0), "reach: host sorts before the stored value");
    __CPROVER_assert(!(r > 0 && d[0] == '.'), "reach: host sorts after a dotted value");
#endif
}
#endif

/* ---- insertion comparator on a pair of values ---- */
#if defined(T_PAIR)
void h_pair(void)
{
    char a[N], b[N], e[N];
    a[N - 1] = 0; b[N - 1] = 0;
    for (int i = 0; i < N; i++) e[i] = 0;
    __CPROVER_assume(wf(a) && wf(b));
    int c1 = dc_compare(a, b);
    int c2 = dc_compare(b, a);
    int s_ab = dc_issubset(a, b), s_ba = dc_issubset(b, a);
    trace3(e, a, b);
    int sub_ab = spec_sub(a, b), sub_ba = spec_sub(b, a);
#ifdef TWIN_PAIR
    __CPROVER_assert((c1 == 0) != (sub_ab || sub_ba), "ensures: TWIN (negated) overlap iff one value covers the other");
#else
    __CPROVER_assert(sgn(c1) == -sgn(c2), "ensures: Compare(a,b) and Compare(b,a) have opposite signs or are both 0");
    __CPROVER_assert(!(c1 == 0) || sub_ab || sub_ba, "ensures: Compare(a,b) == 0 => every host matched by one value is matched by the other (sub-domain or equal)");
    __CPROVER_assert(!(sub_ab || sub_ba) || c1 == 0, "ensures: one value covers the other => Compare(a,b) == 0 (overlap reported)");
    __CPROVER_assert(!(c1 == 0) || s_ab || s_ba, "ensures: overlapping values: IsSubset holds one way or the other (MakeCombinedValue's Assure is unreachable)");
    __CPROVER_assert(!(c1 == 0 && s_ab) || sub_ab, "ensures: Compare(a,b) == 0 and IsSubset(a,b) => b matches every host a matches (dropping a loses nothing)");
    __CPROVER_assert(!(c1 == 0 && s_ba) || sub_ba, "ensures: Compare(a,b) == 0 and IsSubset(b,a) => a matches every host b matches (dropping b loses nothing)");
#endif
    __CPROVER_assert(a[N - 1] == 0 && b[N - 1] == 0, "ensures: inputs not written (sentinels)");
#ifdef REACH
    __CPROVER_assert(!(c1 == 0 && a[0] == '.' && b[0] == '.' && cv_strlen(a) > cv_strlen(b)), "reach: dotted value inside a dotted value");
    __CPROVER_assert(!(c1 == 0 && a[0] != '.' && b[0] == '.'), "reach: name inside a dotted value");
    __CPROVER_assert(!(c1 == 0 && a[0] != '.' && b[0] != '.'), "reach: duplicate name");
    __CPROVER_assert(!(c1 < 0 && c2 > 0), "reach: a before b");
    __CPROVER_assert(!(c1 > 0 && b[0] == '.' && a[0] != '.'), "reach: name after a dotted value");
#endif
}
#endif

/* ---- a host and two values: what Merge() + find() need from the two comparators together ---- */
#if defined(T_TRIPLE)
void h_triple(void)
{
    char h[N], a[N], b[N];
    h[N - 1] = 0; a[N - 1] = 0; b[N - 1] = 0;
    __CPROVER_assume(wf(a) && wf(b));
    int m_ha = dc_lookup(h, a);
    int m_hb = dc_lookup(h, b);
    int c = dc_compare(a, b);
    int s_ab = dc_issubset(a, b);
    trace3(h, a, b);
#ifdef TWIN_TRIPLE
    __CPROVER_assert(!(m_ha == 0 && c == 0 && s_ab) || m_hb != 0, "ensures: TWIN (negated) drop soundness");
#else
    __CPROVER_assert(!(m_ha == 0 && c == 0 && s_ab) || m_hb == 0, "ensures: a host matched by a is still matched by b when Merge() drops a as covered by b (Compare(a,b)==0 and IsSubset(a,b))");
    __CPROVER_assert(!(m_ha == 0 && m_hb == 0) || c == 0, "ensures: two values that match a common host are reported as overlapping (Compare == 0)");
    __CPROVER_assert(!(m_ha == 0 && c != 0) || sgn(m_hb) == sgn(c), "ensures: non-overlapping values: a host matched by a is ordered against b by the lookup comparator exactly as a is by the insertion comparator");
    __CPROVER_assert(!(c < 0) || sgn(m_ha) >= sgn(m_hb), "ensures: lookup comparator is monotone along the insertion order (a before b => sign(cmp(h,a)) >= sign(cmp(h,b)))");
    __CPROVER_assert(!(c > 0) || sgn(m_ha) <= sgn(m_hb), "ensures: lookup comparator is monotone along the insertion order (b before a)");
#endif
#ifdef REACH
    __CPROVER_assert(!(m_ha == 0 && c == 0 && s_ab && a[0] == '.'), "reach: dotted value dropped as covered, host inside it");
    __CPROVER_assert(!(m_ha == 0 && c < 0 && m_hb < 0), "reach: host in a, a before b");
    __CPROVER_assert(!(m_ha == 0 && c > 0 && m_hb > 0), "reach: host in a, a after b");
    __CPROVER_assert(!(c < 0 && m_ha > 0 && m_hb < 0), "reach: host strictly between two values");
    __CPROVER_assert(!(m_ha == 0 && m_hb == 0 && a[0] != b[0]), "reach: host in both values");
#endif
}
#endif

/* ---- three values: Compare is a consistent order (monotone => transitive on non-overlapping values) ---- */
#if defined(T_ORDER)
void h_order(void)
{
    char n[N], a[N], b[N];
    n[N - 1] = 0; a[N - 1] = 0; b[N - 1] = 0;
    __CPROVER_assume(wf(a) && wf(b) && wf(n));
    int c_ab = dc_compare(a, b);
    int c_na = dc_compare(n, a);
    int c_nb = dc_compare(n, b);
    trace3(n, a, b);
#ifdef TWIN_ORDER
    __CPROVER_assert(!(c_ab < 0) || sgn(c_na) < sgn(c_nb), "ensures: TWIN (negated) monotone");
#else
    __CPROVER_assert(!(c_ab < 0) || sgn(c_na) >= sgn(c_nb), "ensures: a before b => sign(Compare(n,a)) >= sign(Compare(n,b)) for every value n (n after b => n after a; n before a => n before b; the values overlapping n are contiguous)");
    __CPROVER_assert(!(c_ab < 0 && c_nb > 0) || c_na > 0, "ensures: transitive: a before b and b before n => a before n");
#endif
#ifdef REACH
    __CPROVER_assert(!(c_ab < 0 && c_na > 0 && c_nb < 0), "reach: n strictly between a and b");
    __CPROVER_assert(!(c_ab < 0 && c_na == 0 && c_nb == 0), "reach: n overlaps both a and b");
    __CPROVER_assert(!(c_ab < 0 && c_na > 0 && c_nb == 0), "reach: n after a and overlapping b");
    __CPROVER_assert(!(c_ab < 0 && c_nb > 0), "reach: three values in a row");
#endif
}
#endif

/* ---- the same facts WITHOUT the well-formedness assumption: any non-empty configured strings (the property says "any list") ----
 * This target is where the known finding shows: values that start with ".." (or are ".") break both facts (and antisymmetry of Compare, which is not asserted here because it has no list-level consequence of its own). */
#if defined(T_ANY)
char *dc_parse_normalise(char *t);
void h_any(void)
{
    char h[N], a[N], b[N];
    h[N - 1] = 0; a[N - 1] = 0; b[N - 1] = 0;
    __CPROVER_assume(a[0] != 0 && b[0] != 0);      /* ConfigParser::strtokFile never yields an empty token */
    /* stored values are what ACLDomainData::parse() makes of the tokens: its real normalisation statements run first */
    char *na = dc_parse_normalise(a);
    char *nb = dc_parse_normalise(b);
    int m_ha = dc_lookup(h, na);
    int m_hb = dc_lookup(h, nb);
    int c = dc_compare(na, nb);
    int caa = dc_compare(na, na);
    int s_ab = dc_issubset(na, nb);
    trace3(h, na, nb);
    __CPROVER_assert(!(m_ha == 0 && c == 0 && s_ab) || m_hb == 0, "ensures: [any values] a host matched by a is still matched by b when Merge() drops a as covered by b (Compare(a,b)==0 and IsSubset(a,b))");
    /* (values made of dots only, ".", "..", are not equal to themselves either; no other value covers them, so Merge() never
     *  tries to remove them: left out so that every counterexample of this obligation is a list the native replay can break) */
    int nondot = 0;
    for (int i = 0; i < N; i++) { if (a[i] == 0) break; if (a[i] != '.') nondot = 1; }   /* same for na: only dots are dropped */
    __CPROVER_assert(!nondot || caa == 0, "ensures: [any values] Compare(a,a) == 0: a stored value can be found again (Merge()'s storage.remove(oldItem) relies on it before it frees oldItem)");
#ifdef REACH
    __CPROVER_assert(!(m_ha == 0 && c == 0 && s_ab && m_hb == 0), "reach: covered value dropped, host still matched");
    __CPROVER_assert(!(c < 0 && caa == 0), "reach: ordered pair");
    __CPROVER_assert(!(a[0] == '.' && a[1] == '.' && a[2] == 'a'), "reach: value with two leading dots");
#endif
}
#endif
