// Native replay for the domaincmp unit (C41, set level), compiled with ASan+UBSan.
// REAL code, all of it: include/splay.h (Splay<char*>), src/acl/SplayInserter.h (Merge), the DomainData.cc specialisations
// Compare / IsSubset / MakeCombinedValue / DestroyValue and aclHostDomainCompare (dd_native.inc, unedited slices), and
// matchDomainName (mdn.c, the slice the verifier sees).  Only debugs()/Assure()/fatal() are local stand-ins.
// Oracle = the PROPERTY: an ACL built from the values (every insertion order) matches host x  <=>  some value matches x,
// where "value matches x" is matchDomainName(x, value) == 0 (that function's meaning is proved in units/matchdomain).
#include "replay.h"
#include <cctype>
#include <iostream>
#include <algorithm>
#define SQUID_SRC_FATAL_H
#define SQUID_SRC_ACL_ACL_H
#define SQUID_SRC_DEBUG_STREAM_H
#define SQUID_SRC_GLOBALS_H
static void fatal(const char *m) { fprintf(stderr, "fatal: %s\n", m); abort(); }
static int g_warn = 1;
#define debugs(S, L, C) do { if (g_warn) std::cout << "    squid: " << C << "\n"; } while (0)
#define DBG_PARSE_NOTE(x) (x)
#define DBG_IMPORTANT 1
namespace Debug { static const char *Extra = "\n      "; }
#define Assure(c) do { if (!(c)) { printf("Assure failed: %s\n", #c); abort(); } } while (0)
#define xfree free
#include "mdn.c"                         // matchDomainName (REAL) + mdn_pre.h + mdn_enum.h
int matchDomainName(const char *host, const char *domain, MatchDomainNameFlags flags = mdnNone);   // default as in Uri.h
#include "splay.h"
int splayLastResult = 0;                 // lib/Splay.cc
#include "acl/SplayInserter.h"
#include "dd_native.inc"
#define N 4096
#define CV_NATIVE 1
namespace spec {
#include "contract.c"                    // units/matchdomain/contract.c: spec_match
}

static bool cexByte(const Cex &c, const std::string &k, int &out)
{
    auto it = c.kv.find(k);
    if (it == c.kv.end() || it->second.empty()) return false;
    const std::string &v = it->second;
    if (v[0] != '@') { out = (int)strtol(v.c_str(), nullptr, 10); return true; }
    if (v.size() >= 4 && v[1] == '\'' && v[2] == '\\') {
        switch (v[3]) { case 'n': out = '\n'; return true; case 'r': out = '\r'; return true; case 't': out = '\t'; return true;
        case 'v': out = '\v'; return true; case 'f': out = '\f'; return true; case 'a': out = '\a'; return true; case 'b': out = '\b'; return true;
        case '\\': out = '\\'; return true; case '\'': out = '\''; return true;
        case '0': case '1': case '2': case '3': out = (int)strtol(v.c_str() + 3, nullptr, 8); return true; }
    }
    if (v.size() >= 4 && v[1] == '\'' && v[3] == '\'') { out = (unsigned char)v[2]; return true; }
    return false;
}
static std::string str(const Cex &c, const char *name)
{
    std::string s;
    for (int i = 0; i < 4096; ++i) { int b = 0; if (!cexByte(c, std::string(name) + "[" + std::to_string(i) + "l]", b) || b == 0) break; s.push_back((char)b); }
    return s;
}
static void freeValue(char *&v) { free(v); }

// builds the ACL from `values` in the given order with the REAL Merge(), looks every host up with the REAL find()
static int checkList(const std::vector<std::string> &values, const std::vector<std::string> &hosts)
{
    int bad = 0;
    Splay<char*> domains;
    printf("  acl dstdomain");
    for (auto &v : values) printf(" '%s'", v.c_str());
    printf("\n");
    for (auto &v : values) Acl::SplayInserter<char*>::Merge(domains, strdup(v.c_str()));
    for (auto &x : hosts) {
        bool want = false;
        for (auto &v : values) if (matchDomainName(x.c_str(), v.c_str()) == 0) want = true;
        char *h = strdup(x.c_str());
        const bool got = domains.find(h, aclHostDomainCompare) != nullptr;
        free(h);
        if (got != want) {
            printf("  host '%s': ACL %s, but %s\n", x.c_str(), got ? "MATCHES" : "does NOT match", want ? "a configured value matches it" : "no configured value matches it");
            ++bad;
        }
    }
    domains.destroy(freeValue);
    return bad;
}

int main(int argc, char **argv)
{
    if (argc < 3) return 2;
    std::string mode = argv[1], h, a, b;
    std::vector<std::string> values, hosts;
    if (mode == "enum") {               // enum <maxlen> <wellformed-only 0|1>: every list of 1..3 values over {a,b,.}, every order (a TEST, not a proof)
        const int L = atoi(argv[2]); const bool onlyWf = argc > 3 && atoi(argv[3]);
        std::vector<std::string> all{""};
        for (size_t i = 0; i < all.size(); ++i) if ((int)all[i].size() < L) for (char ch : {'a', 'b', '.'}) all.push_back(all[i] + ch);
        std::vector<std::string> vals;
        for (auto &v : all) if (!v.empty() && (!onlyWf || !(v[0] == '.' && (v.size() == 1 || v[1] == '.')))) vals.push_back(v);
        g_warn = 0;
        long lists = 0, badLists = 0;
        for (size_t i = 0; i < vals.size(); ++i) for (size_t j = i; j < vals.size(); ++j) for (size_t k = j; k < vals.size(); ++k) {
            std::vector<std::string> vs{vals[i], vals[j], vals[k]};
            std::sort(vs.begin(), vs.end());
            do {
                Splay<char*> domains;
                for (auto &v : vs) Acl::SplayInserter<char*>::Merge(domains, strdup(v.c_str()));
                bool bad = false;
                for (auto &x : all) {
                    bool want = false;
                    for (auto &v : vs) if (matchDomainName(x.c_str(), v.c_str()) == 0) want = true;
                    char *hh = strdup(x.c_str());
                    const bool got = domains.find(hh, aclHostDomainCompare) != nullptr;
                    free(hh);
                    if (got != want) { if (!bad && badLists < 5) printf("  list '%s' '%s' '%s' host '%s': ACL %s\n", vs[0].c_str(), vs[1].c_str(), vs[2].c_str(), x.c_str(), got ? "matches wrongly" : "misses"); bad = true; }
                }
                domains.destroy(freeValue);
                ++lists; if (bad) ++badLists;
            } while (std::next_permutation(vs.begin(), vs.end()));
        }
        printf("%ld ordered lists of 3 values (len <= %d, %s), %zu hosts each: %ld lists with a wrong answer\n", lists, L, onlyWf ? "well-formed only" : "any", all.size(), badLists);
        return badLists ? 1 : 0;
    }
    if (mode == "literal") {            // literal <host> <value>...
        hosts.push_back(argv[2]);
        for (int i = 3; i < argc; ++i) values.push_back(argv[i]);
        mode = "set";
    } else {
        Cex c; if (!c.load(argv[2])) return 2;
        h = str(c, "hs"); a = str(c, "as"); b = str(c, "bs");
        if (mode == "lookup") {
            char *hb = strdup(h.c_str()), *db = strdup(a.c_str());
            const int r = aclHostDomainCompare(hb, db);
            size_t dots = 0; while (hb[dots] == '.') ++dots;
            const int m = spec::spec_match(hb + dots, (long)strlen(hb + dots), db, (long)strlen(db));
            printf("aclHostDomainCompare(\"%s\", \"%s\") = %d, spec says %s\n", hb, db, r, m ? "match" : "no match");
            free(hb); free(db);
            if ((r == 0) != (m != 0)) RP_FAIL("lookup comparator disagrees with the meaning of the value");
            RP_OK("postcondition holds on this input");
        }
        if (mode == "order") values = {h, a, b};     // three values (n, a, b)
        else { values = {a, b}; hosts.push_back(h); }
    }
    // hosts to probe: the given one, every value and every value without its leading dots, plus a sub-domain of each
    for (auto v : values) {
        hosts.push_back(v);
        size_t d = 0; while (d < v.size() && v[d] == '.') ++d;
        hosts.push_back(v.substr(d));
        hosts.push_back("x." + v.substr(d));
        hosts.push_back("x" + v);
    }
    std::sort(hosts.begin(), hosts.end());
    hosts.erase(std::unique(hosts.begin(), hosts.end()), hosts.end());
    int bad = 0;
    // the lists tried: the counterexample's values; and, for every value v with two or more leading dots (the comparators
    // treat such a v inconsistently), v next to its one-dot and its no-dot form -- the configurations in which the
    // comparator-level failure becomes a wrong ACL (or a use-after-free inside the real Merge(): ASan aborts, exit != 0)
    std::vector<std::vector<std::string> > lists{values};
    for (auto &v : values) {
        size_t d = 0; while (d < v.size() && v[d] == '.') ++d;
        if (d >= 2 && d < v.size()) { lists.push_back({v, v.substr(d)}); lists.push_back({v, "." + v.substr(d)}); }
    }
    for (auto &l : lists) {
        std::sort(l.begin(), l.end());
        do { bad += checkList(l, hosts); fflush(stdout); } while (std::next_permutation(l.begin(), l.end()));
    }
    if (bad) RP_FAIL("the ACL built by the real Merge()/Splay does not match exactly the hosts its values match (%d disagreements)", bad);
    RP_OK("ACL built from these values (every order) matches exactly the hosts some value matches");
}
