/* Sidecar contracts for lib/base64.cc (the repository's own implementation, i.e. the text under
 * `#if !HAVE_NETTLE_BASE64_H`; this build links libnettle instead -- see unit.json "assumptions").
 * Postconditions come from C36: decode(encode(x)) == x; malformed input is rejected without writing beyond the
 * output size the API promises (BASE64_DECODE_LENGTH / BASE64_ENCODE_LENGTH / ..RAW_LENGTH / ..FINAL_LENGTH). */
#include <stddef.h>
#include <stdint.h>
#include <stdlib.h>
#include "base64.h"   /* HAVE_NETTLE_BASE64_H is not defined in this TU => the repository's declarations and macros */

#ifndef N
#define N 16          /* bound on src_length / length in the *_update targets */
#endif

/* ---- specification, written from RFC 4648 section 4 (alphabet) and the comment in base64_decode_init (white space) ---- */
#define SPEC_DEC(k) (((k) >= 'A' && (k) <= 'Z') ? (k) - 'A' : ((k) >= 'a' && (k) <= 'z') ? (k) - 'a' + 26 : \
                     ((k) >= '0' && (k) <= '9') ? (k) - '0' + 52 : (k) == '+' ? 62 : (k) == '/' ? 63 : \
                     (k) == '=' ? -3 : ((k) == ' ' || ((k) >= 9 && (k) <= 13)) ? -2 : -1)
#define SPEC_ENC(s) ((s) < 26 ? 'A' + (s) : (s) < 52 ? 'a' + ((s) - 26) : (s) < 62 ? '0' + ((s) - 52) : (s) == 62 ? '+' : '/')
#define IN_ALPHA(c) (((c) >= 'A' && (c) <= 'Z') || ((c) >= 'a' && (c) <= 'z') || ((c) >= '0' && (c) <= '9') || (c) == '+' || (c) == '/')

/* context invariants (include/base64.h: "bits: always 0, 2, or 4" for encoding; decoding buffers up to 6 bits) */
#define DEC_INV(c) (((c)->bits == 0 || (c)->bits == 2 || (c)->bits == 4 || (c)->bits == 6) && (c)->padding <= 3)
#define ENC_INV(c) ((c)->bits == 0 || (c)->bits == 2 || (c)->bits == 4)
/* the decoding table is the one base64_decode_init installs (proved by target "init") */
#define DEC_TABLE(t) __CPROVER_forall { unsigned tk_; (tk_ < 256) ==> (t)[tk_] == SPEC_DEC((int)tk_) }
#define ENC_TABLE(a) __CPROVER_forall { unsigned ak_; (ak_ < 64) ==> (a)[ak_] == SPEC_ENC((int)ak_) }

size_t g;             /* ghost index (arbitrary; a statement about x[g] is a statement about every element) */

#ifndef CV_NATIVE
/* ===================== init: what the two init functions install (base case of the table facts) ===================== */
#if defined(T_INIT)
void h_init(void)
{
    struct base64_decode_ctx d;
    struct base64_encode_ctx e;
    d.bits = 5; d.padding = 9; d.word = 77; e.bits = 3; e.word = 5;
    base64_decode_init(&d);
    base64_encode_init(&e);
    __CPROVER_assert(d.word == 0 && d.bits == 0 && d.padding == 0, "init: decode ctx starts empty");
    __CPROVER_assert(e.word == 0 && e.bits == 0, "init: encode ctx starts empty");
    __CPROVER_assert(__CPROVER_OBJECT_SIZE(d.table) == 256 && __CPROVER_POINTER_OFFSET(d.table) == 0, "init: decode table has 256 entries");
    for (int k = 0; k < 256; k++) {
#ifdef TWIN_INIT
        __CPROVER_assert(d.table[k] != SPEC_DEC(k), "init: TWIN (negated) decode table");
#else
        __CPROVER_assert(d.table[k] == SPEC_DEC(k), "init: decode table == RFC 4648 alphabet, '=' -> END, HT/LF/VT/FF/CR/SP -> SPACE, everything else INVALID");
#endif
    }
    __CPROVER_assert(__CPROVER_OBJECT_SIZE(e.alphabet) >= 64 && __CPROVER_POINTER_OFFSET(e.alphabet) == 0, "init: encode alphabet has 64 entries");
    for (int k = 0; k < 64; k++)
        __CPROVER_assert(e.alphabet[k] == SPEC_ENC(k), "init: encode alphabet == RFC 4648 alphabet");
    /* base64_encode_group: four alphabet characters of the 24-bit group */
    uint32_t grp; char o[4];
    base64_encode_group(o, grp);
    __CPROVER_assert(o[0] == SPEC_ENC((int)((grp >> 18) & 63)) && o[1] == SPEC_ENC((int)((grp >> 12) & 63)) &&
                     o[2] == SPEC_ENC((int)((grp >> 6) & 63)) && o[3] == SPEC_ENC((int)(grp & 63)), "init: encode_group exact");
}
#endif

/* ===================== base64_decode_single (dfcc: frame + exact behaviour) ===================== */
#if defined(T_DEC_SINGLE)
#define OLD(x) __CPROVER_old(x)
#define D_ ((int)SPEC_DEC((int)(uint8_t)src))
int base64_decode_single(struct base64_decode_ctx *ctx, uint8_t *dst, char src)
__CPROVER_requires(__CPROVER_is_fresh(ctx, sizeof(*ctx)))
__CPROVER_requires(__CPROVER_is_fresh(ctx->table, 256))
__CPROVER_requires(DEC_TABLE(ctx->table))
__CPROVER_requires(DEC_INV(ctx))
__CPROVER_requires(__CPROVER_is_fresh(dst, 1))
__CPROVER_assigns(ctx->word, ctx->bits, ctx->padding, dst[0])
#ifdef TWIN_DEC_SINGLE
__CPROVER_ensures(!(DEC_INV(ctx)))
#else
__CPROVER_ensures(DEC_INV(ctx))                                           /* the invariant is an invariant */
#endif
__CPROVER_ensures(__CPROVER_return_value >= -1 && __CPROVER_return_value <= 1)
/* writes at most dst[0], and only when it reports one output byte */
__CPROVER_ensures(__CPROVER_return_value != 1 ==> dst[0] == OLD(dst[0]))
/* errors leave the context untouched */
__CPROVER_ensures(__CPROVER_return_value == -1 ==> (ctx->word == OLD(ctx->word) && ctx->bits == OLD(ctx->bits) && ctx->padding == OLD(ctx->padding)))
/* malformed: a byte outside alphabet / white space / '=' is rejected; data after padding is rejected */
__CPROVER_ensures(D_ == -1 ==> __CPROVER_return_value == -1)
__CPROVER_ensures((D_ >= 0 && OLD(ctx->padding) != 0) ==> __CPROVER_return_value == -1)
/* white space is skipped */
__CPROVER_ensures(D_ == -2 ==> (__CPROVER_return_value == 0 && ctx->word == OLD(ctx->word) && ctx->bits == OLD(ctx->bits) && ctx->padding == OLD(ctx->padding)))
/* a data character shifts six bits in; a byte comes out exactly when eight are available */
__CPROVER_ensures((D_ >= 0 && OLD(ctx->padding) == 0) ==>
    (ctx->word == (unsigned short)((OLD(ctx->word) << 6) | D_) && ctx->padding == 0 &&
     (OLD(ctx->bits) >= 2 ? (__CPROVER_return_value == 1 && ctx->bits == OLD(ctx->bits) - 2 && dst[0] == (uint8_t)(ctx->word >> ctx->bits))
                          : (__CPROVER_return_value == 0 && ctx->bits == 6))))
/* padding: only with buffered bits that are all zero; never more than three; the first two are accepted.
 * (Whether a THIRD '=' is accepted is deliberately left open here: the code accepts it -- see target strict4 / known finding.) */
#define LEFT_ ((OLD(ctx->word) & ((1 << OLD(ctx->bits)) - 1)) != 0)
__CPROVER_ensures(D_ == -3 ==> (__CPROVER_return_value == -1 ||
    (__CPROVER_return_value == 0 && ctx->bits == OLD(ctx->bits) - 2 && ctx->padding == OLD(ctx->padding) + 1 && ctx->word == OLD(ctx->word))))
__CPROVER_ensures((D_ == -3 && (OLD(ctx->bits) == 0 || OLD(ctx->padding) > 2 || LEFT_)) ==> __CPROVER_return_value == -1)
__CPROVER_ensures((D_ == -3 && OLD(ctx->bits) != 0 && OLD(ctx->padding) < 2 && !LEFT_) ==> __CPROVER_return_value == 0)
;
void h_dec_single(void)
{
    struct base64_decode_ctx *ctx; uint8_t *dst; char src;
    int r = base64_decode_single(ctx, dst, src);
#ifdef REACH
    __CPROVER_assert(!(r == -1 && src == '='), "reach: padding rejected");
    __CPROVER_assert(!(r == -1 && src == 'A'), "reach: data after padding rejected");
    __CPROVER_assert(!(r == 0 && src == '='), "reach: padding accepted");
    __CPROVER_assert(!(r == 0 && src == 'A'), "reach: data buffered");
    __CPROVER_assert(!(r == 1), "reach: byte produced");
#endif
}
#endif

/* ===================== base64_decode_update (dfcc + loop invariant) ===================== */
#if defined(T_DEC_UPDATE)
size_t g_bits0;       /* ghost: ctx->bits on entry */
size_t g_bad;         /* ghost: index of some malformed byte (if < src_length) */
int base64_decode_update(struct base64_decode_ctx *ctx, size_t *dst_length, uint8_t *dst, size_t src_length, const char *src)
__CPROVER_requires(src_length <= N)
__CPROVER_requires(__CPROVER_is_fresh(ctx, sizeof(*ctx)))
__CPROVER_requires(__CPROVER_is_fresh(ctx->table, 256))
__CPROVER_requires(DEC_TABLE(ctx->table))
__CPROVER_requires(DEC_INV(ctx))
__CPROVER_requires(__CPROVER_is_fresh(dst_length, sizeof(size_t)))
/* exactly the area the API comment demands: "DST should point to an area of size at least BASE64_DECODE_LENGTH(length)" */
__CPROVER_requires(__CPROVER_is_fresh(dst, BASE64_DECODE_LENGTH(src_length)))
__CPROVER_requires(__CPROVER_is_fresh(src, src_length))
__CPROVER_requires(g_bits0 == ctx->bits)
__CPROVER_requires(g_bad < src_length ==> SPEC_DEC((int)(uint8_t)src[g_bad]) == -1)
__CPROVER_assigns(ctx->word, ctx->bits, ctx->padding, *dst_length, __CPROVER_object_whole(dst))
__CPROVER_ensures(__CPROVER_return_value == 0 || __CPROVER_return_value == 1)
__CPROVER_ensures(DEC_INV(ctx))
#ifdef TWIN_DEC_UPDATE
__CPROVER_ensures(__CPROVER_return_value == 1 ==> *dst_length > BASE64_DECODE_LENGTH(src_length))
#else
/* the promised output size; and exactly: no more bytes than the buffered + consumed bits can fill */
__CPROVER_ensures(__CPROVER_return_value == 1 ==> *dst_length <= BASE64_DECODE_LENGTH(src_length))
#endif
__CPROVER_ensures(__CPROVER_return_value == 1 ==> 8 * *dst_length + ctx->bits <= g_bits0 + 6 * src_length)
__CPROVER_ensures(__CPROVER_return_value == 0 ==> *dst_length == __CPROVER_old(*dst_length))
/* malformed input: any byte that is neither alphabet, white space nor '=' makes the call fail */
__CPROVER_ensures(g_bad < src_length ==> __CPROVER_return_value == 0)
;
void h_dec_update(void)
{
    struct base64_decode_ctx *ctx; size_t *dl; uint8_t *dst; size_t n; const char *src;
    int r = base64_decode_update(ctx, dl, dst, n, src);
#ifdef REACH
    __CPROVER_assert(!(r == 1 && n == N && g_bits0 == 6), "reach: full-length input accepted with 6 buffered bits");
    __CPROVER_assert(!(r == 1 && n == 0), "reach: empty input accepted");
    __CPROVER_assert(!(r == 0 && g_bad >= n), "reach: rejected for a reason other than an invalid byte (padding rules)");
    __CPROVER_assert(!(r == 0 && g_bad == N - 1), "reach: rejected at the last byte");
#endif
}
#endif
#endif /* CV_NATIVE */

/* ===================== encoder ===================== */
/* (used by the native replay only: the exact-stream postcondition of encode_update was too expensive for SAT and was dropped)
 * the base64 character stream of the bit string  B = (low bits0 bits of word0) ++ src[0..length):
 * character number c encodes bits [6c, 6c+6) of B, most significant first (RFC 4648 section 4) */
static unsigned spec_stream_bit(unsigned word0, unsigned bits0, const uint8_t *src, size_t t)
{
    if (t < bits0) return (word0 >> (bits0 - 1 - t)) & 1u;
    return ((unsigned)src[(t - bits0) / 8] >> (7 - (t - bits0) % 8)) & 1u;
}
static unsigned spec_stream_sextet(unsigned word0, unsigned bits0, const uint8_t *src, size_t c)
{
    unsigned v = 0;
    for (unsigned j = 0; j < 6; j++) v = (v << 1) | spec_stream_bit(word0, bits0, src, 6 * c + j);
    return v;
}
/* character number c of the padded ("raw") encoding of src[0..length) */
static char spec_raw_char(const uint8_t *src, size_t length, size_t c)
{
    size_t q = c / 4 * 3;                       /* first source byte of the group */
    unsigned p = (unsigned)(c % 4);
    unsigned s0 = src[q], s1 = q + 1 < length ? src[q + 1] : 0, s2 = q + 2 < length ? src[q + 2] : 0;
    if ((p == 2 && q + 1 >= length) || (p == 3 && q + 2 >= length)) return '=';
    unsigned six = p == 0 ? s0 >> 2 : p == 1 ? ((s0 & 3) << 4) | (s1 >> 4) : p == 2 ? ((s1 & 15) << 2) | (s2 >> 6) : s2 & 63;
    return (char)SPEC_ENC((int)six);
}

#ifndef CV_NATIVE
size_t g_raw;         /* ghost index into encode_raw's own output (used by its loop invariant) */

/* ---------- base64_encode_single (dfcc) ---------- */
#if defined(T_ENC_SINGLE)
#define OLD(x) __CPROVER_old(x)
#define W_ (((unsigned)OLD(ctx->word) << 8) | src)
size_t base64_encode_single(struct base64_encode_ctx *ctx, char *dst, uint8_t src)
__CPROVER_requires(__CPROVER_is_fresh(ctx, sizeof(*ctx)))
__CPROVER_requires(__CPROVER_is_fresh(ctx->alphabet, 64))
__CPROVER_requires(ENC_TABLE(ctx->alphabet))
__CPROVER_requires(ENC_INV(ctx))
__CPROVER_requires(__CPROVER_is_fresh(dst, BASE64_ENCODE_LENGTH(1)))      /* the header's bound for one byte: 2 */
__CPROVER_assigns(ctx->word, ctx->bits, dst[0], dst[1])
__CPROVER_ensures(ENC_INV(ctx))
#ifdef TWIN_ENC_SINGLE
__CPROVER_ensures(__CPROVER_return_value != (size_t)((OLD(ctx->bits) + 8) / 6))
#else
__CPROVER_ensures(__CPROVER_return_value == (size_t)((OLD(ctx->bits) + 8) / 6))   /* 1 or 2 */
#endif
__CPROVER_ensures(__CPROVER_return_value <= BASE64_ENCODE_LENGTH(1))
__CPROVER_ensures(ctx->bits == (OLD(ctx->bits) + 8) % 6)
__CPROVER_ensures(ctx->word == (unsigned short)W_)
__CPROVER_ensures(dst[0] == SPEC_ENC((int)((W_ >> (OLD(ctx->bits) + 2)) & 63)))
__CPROVER_ensures(__CPROVER_return_value == 2 ==> dst[1] == SPEC_ENC((int)(src & 63)))
__CPROVER_ensures(__CPROVER_return_value == 1 ==> dst[1] == OLD(dst[1]))
;
void h_enc_single(void)
{
    struct base64_encode_ctx *ctx; char *dst; uint8_t src;
    size_t r = base64_encode_single(ctx, dst, src);
#ifdef REACH
    __CPROVER_assert(!(r == 1), "reach: one character");
    __CPROVER_assert(!(r == 2), "reach: two characters");
#endif
}
#endif

/* ---------- base64_encode_final (dfcc) ---------- */
#if defined(T_ENC_FINAL)
#define OLD(x) __CPROVER_old(x)
size_t base64_encode_final(struct base64_encode_ctx *ctx, char *dst)
__CPROVER_requires(__CPROVER_is_fresh(ctx, sizeof(*ctx)))
__CPROVER_requires(__CPROVER_is_fresh(ctx->alphabet, 64))
__CPROVER_requires(ENC_TABLE(ctx->alphabet))
__CPROVER_requires(ENC_INV(ctx))
__CPROVER_requires(__CPROVER_is_fresh(dst, BASE64_ENCODE_FINAL_LENGTH))
__CPROVER_assigns(ctx->bits, __CPROVER_object_whole(dst))
__CPROVER_ensures(ctx->bits == 0 && ctx->word == OLD(ctx->word))
#ifdef TWIN_ENC_FINAL
__CPROVER_ensures(__CPROVER_return_value > BASE64_ENCODE_FINAL_LENGTH || __CPROVER_return_value != (OLD(ctx->bits) == 0 ? 0 : OLD(ctx->bits) == 2 ? 3 : 2))
#else
__CPROVER_ensures(__CPROVER_return_value <= BASE64_ENCODE_FINAL_LENGTH)
__CPROVER_ensures(__CPROVER_return_value == (OLD(ctx->bits) == 0 ? 0 : OLD(ctx->bits) == 2 ? 3 : 2))
#endif
/* the buffered bits, left-aligned in one character, then '=' up to a multiple of four characters */
__CPROVER_ensures(OLD(ctx->bits) != 0 ==> dst[0] == SPEC_ENC((int)((OLD(ctx->word) << (6 - OLD(ctx->bits))) & 63)))
__CPROVER_ensures(OLD(ctx->bits) != 0 ==> dst[1] == '=')
__CPROVER_ensures(OLD(ctx->bits) == 2 ==> dst[2] == '=')
__CPROVER_ensures(OLD(ctx->bits) == 0 ==> (dst[0] == OLD(dst[0]) && dst[1] == OLD(dst[1])))
__CPROVER_ensures(OLD(ctx->bits) != 2 ==> dst[2] == OLD(dst[2]))
;
void h_enc_final(void)
{
    struct base64_encode_ctx *ctx; char *dst;
    size_t r = base64_encode_final(ctx, dst);
#ifdef REACH
    __CPROVER_assert(!(r == 0), "reach: nothing buffered");
    __CPROVER_assert(!(r == 2), "reach: four bits buffered");
    __CPROVER_assert(!(r == 3), "reach: two bits buffered");
#endif
}
#endif

/* ---------- encode_raw via base64_encode_raw (harness mode: exact-size heap blocks; loop invariant) ---------- */
#if defined(T_ENC_RAW)
void h_enc_raw(void)
{
    size_t length;
    __CPROVER_assume(length <= N);
    /* exactly the sizes the API names: reads inside src[0..length), writes inside dst[0..BASE64_ENCODE_RAW_LENGTH(length)) */
    uint8_t *src = malloc(length);
    char *dst = malloc(BASE64_ENCODE_RAW_LENGTH(length));
    __CPROVER_assume(src != NULL && dst != NULL);
    base64_encode_raw(dst, length, src);
    /* (both in-code asserts are obligations of the xassert stub: in == src, out == dst, i.e. exactly RAW_LENGTH bytes were produced) */
#ifdef TWIN_ENC_RAW
    __CPROVER_assert(!(g_raw < BASE64_ENCODE_RAW_LENGTH(length)) || dst[g_raw] != spec_raw_char(src, length, g_raw), "ensures: TWIN (negated) exact output");
#else
    __CPROVER_assert(!(g_raw < BASE64_ENCODE_RAW_LENGTH(length)) || dst[g_raw] == spec_raw_char(src, length, g_raw),
                     "ensures: every output byte is the RFC 4648 character of its group position, '=' padding (ghost index)");
#endif
    __CPROVER_assert(!(g_raw < BASE64_ENCODE_RAW_LENGTH(length)) || IN_ALPHA(dst[g_raw]) || dst[g_raw] == '=', "ensures: every output byte is in the alphabet or '='");
#ifdef REACH
    __CPROVER_assert(!(length == N), "reach: full length");
    __CPROVER_assert(!(length % 3 == 1 && length > 3), "reach: one-byte tail");
    __CPROVER_assert(!(length % 3 == 2 && length > 3), "reach: two-byte tail");
    __CPROVER_assert(!(length == 0), "reach: empty");
#endif
}
#endif

/* ---------- base64_encode_update (harness mode; encode_raw's loop by invariant, the other loops have constant bounds) ---------- */
#if defined(T_ENC_UPDATE)
void h_enc_update(void)
{
    struct base64_encode_ctx ctx;
    base64_encode_init(&ctx);                   /* the real alphabet */
    unsigned short word0; unsigned char bits0;
    __CPROVER_assume(bits0 == 0 || bits0 == 2 || bits0 == 4);      /* ENC_INV */
    ctx.word = word0; ctx.bits = bits0;
    size_t length;
    __CPROVER_assume(length <= N);
    uint8_t *src = malloc(length);
    char *dst = malloc(BASE64_ENCODE_LENGTH(length));                /* "an area of size at least BASE64_ENCODE_LENGTH(length)" */
    __CPROVER_assume(src != NULL && dst != NULL);
    /* ghost choice: the index inside encode_raw's own output that corresponds to g */
    size_t prefix = bits0 == 0 ? 0 : bits0 == 4 ? (length >= 1 ? 2 : 0) : (length >= 2 ? 3 : length);
    g_raw = g - prefix;
    size_t done = base64_encode_update(&ctx, dst, length, src);
    __CPROVER_assert(done <= BASE64_ENCODE_LENGTH(length), "ensures: at most BASE64_ENCODE_LENGTH(length) characters");
#ifdef TWIN_ENC_UPDATE
    __CPROVER_assert(done != (bits0 + 8 * length) / 6, "ensures: TWIN (negated) count");
#else
    __CPROVER_assert(done == (bits0 + 8 * length) / 6, "ensures: exactly floor((buffered bits + 8*length)/6) characters");
#endif
    __CPROVER_assert(ctx.bits == (bits0 + 8 * length) % 6 && ENC_INV(&ctx), "ensures: ctx invariant, buffered bit count");
    __CPROVER_assert(!(g < done) || IN_ALPHA(dst[g]), "ensures: every output byte is in the alphabet (ghost index)");
#ifdef REACH
    __CPROVER_assert(!(length == N && bits0 == 2), "reach: full length with two buffered bits");
    __CPROVER_assert(!(length == 0), "reach: empty");
    __CPROVER_assert(!(length == 1 && bits0 == 2), "reach: prefix loop only");
    __CPROVER_assert(!(length > 6 && g > 8 && g < done && bits0 == 4), "reach: ghost inside the bulk part");
    __CPROVER_assert(!(length > 6 && g == done - 1 && ctx.bits == 2), "reach: ghost in the tail part");
#endif
}
#endif
#endif /* CV_NATIVE */

/* well-formed quad per RFC 4648 section 4 (canonical form, section 3.5): four alphabet characters, or three + '=' with the
 * two unused bits zero, or two + "==" with the four unused bits zero */
static int spec_wellformed_quad(const char *s)
{
    int d0 = SPEC_DEC((int)(uint8_t)s[0]), d1 = SPEC_DEC((int)(uint8_t)s[1]), d2 = SPEC_DEC((int)(uint8_t)s[2]), d3 = SPEC_DEC((int)(uint8_t)s[3]);
    if (d0 < 0 || d1 < 0) return 0;
    if (d2 >= 0 && d3 >= 0) return 3;
    if (d2 >= 0 && d3 == -3) return (d2 & 3) == 0 ? 2 : 0;
    if (d2 == -3 && d3 == -3) return (d1 & 15) == 0 ? 1 : 0;
    return 0;
}

#ifndef CV_NATIVE
/* ---------- group lemma (complete): decoding the 4 characters the real encoder emits for ANY 3-byte group or 1-/2-byte tail,
 * starting on a group boundary of the decoder (bits == 0, padding == 0, arbitrary leftover word), returns exactly the bytes
 * and ends on a group boundary again.  With dec_update's invariant this is the induction step of decode(encode(x)) == x. */
#if defined(T_GROUP)
void h_group(void)
{
    uint8_t x[3]; size_t L;
    __CPROVER_assume(L >= 1 && L <= 3);
    char enc[4], enc2[BASE64_ENCODE_LENGTH(3) + BASE64_ENCODE_FINAL_LENGTH];
    base64_encode_raw(enc, L, x);
    /* the streaming encoder produces the same four characters */
    struct base64_encode_ctx e;
    base64_encode_init(&e);
    size_t k = base64_encode_update(&e, enc2, L, x);
    k += base64_encode_final(&e, enc2 + k);
    __CPROVER_assert(k == 4 && enc2[0] == enc[0] && enc2[1] == enc[1] && enc2[2] == enc[2] && enc2[3] == enc[3],
                     "lemma: init/update/final emit the same 4 characters as encode_raw");
    __CPROVER_assert(spec_wellformed_quad(enc) == (int)L, "lemma: the emitted quad is a canonical RFC 4648 quad for L bytes");
    struct base64_decode_ctx d;
    base64_decode_init(&d);
    unsigned short w; d.word = w;
    uint8_t out[BASE64_DECODE_LENGTH(4)]; size_t n = 77;
    int ok = base64_decode_update(&d, &n, out, 4, enc);
#ifdef TWIN_GROUP
    __CPROVER_assert(!(ok == 1 && n == L && out[0] == x[0]), "lemma: TWIN (negated) group decodes");
#else
    __CPROVER_assert(ok == 1 && n == L, "lemma: the quad decodes to exactly L bytes");
    __CPROVER_assert(out[0] == x[0] && (L < 2 || out[1] == x[1]) && (L < 3 || out[2] == x[2]), "lemma: the decoded bytes are the encoded bytes");
#endif
    __CPROVER_assert(d.bits == 0 && (L < 3 || d.padding == 0) && base64_decode_final(&d) == 1, "lemma: decoder is back on a group boundary; final accepts");
#ifdef REACH
    __CPROVER_assert(!(L == 1), "reach: one-byte tail");
    __CPROVER_assert(!(L == 2), "reach: two-byte tail");
    __CPROVER_assert(!(L == 3 && x[0] == 0xff && x[2] == 0), "reach: full group");
#endif
}
#endif

/* ---------- whole-string round trip, bounded ---------- */
#if defined(T_ROUNDTRIP)
void h_roundtrip(void)
{
    uint8_t x[N]; size_t len;
    __CPROVER_assume(len <= N);
    char enc[base64_encode_len(N)];
    struct base64_encode_ctx e;
    base64_encode_init(&e);
    size_t k = base64_encode_update(&e, enc, len, x);
    k += base64_encode_final(&e, enc + k);
    __CPROVER_assert(k == BASE64_ENCODE_RAW_LENGTH(len), "round trip: encoding has the padded length");
    struct base64_decode_ctx d;
    base64_decode_init(&d);
    uint8_t out[BASE64_DECODE_LENGTH(BASE64_ENCODE_RAW_LENGTH(N))]; size_t n = 0;
    int ok = base64_decode_update(&d, &n, out, k, enc);
    int fin = base64_decode_final(&d);
#ifdef TWIN_ROUNDTRIP
    __CPROVER_assert(!(ok == 1 && fin == 1 && n == len), "round trip: TWIN (negated)");
#else
    __CPROVER_assert(ok == 1 && fin == 1 && n == len, "round trip: decode accepts and returns the original length");
#endif
    __CPROVER_assert(!(g < len) || out[g] == x[g], "round trip: decode(encode(x))[g] == x[g] (ghost index)");
#ifdef REACH
    __CPROVER_assert(!(len == N), "reach: maximal length");
    __CPROVER_assert(!(len == 0), "reach: empty string");
    __CPROVER_assert(!(len == N - 1 && x[0] == 0xff), "reach: with a tail");
#endif
}
#endif


/* ---------- chunked encoding: update(L1 bytes); update(L2 bytes); final  ==  one-shot encode_raw of the concatenation ----------
 * (multi-call histories on one context: the partial group buffered by the first call must be completed by the second).
 * L1, L2 are compile-time constants of the target, so every loop has a constant bound: complete for that shape,
 * for all byte contents. */
#if defined(T_CHUNKED)
void h_chunked(void)
{
    uint8_t x[L1 + L2];
    char enc[BASE64_ENCODE_LENGTH(L1) + BASE64_ENCODE_LENGTH(L2) + BASE64_ENCODE_FINAL_LENGTH + 4];
    char ref[BASE64_ENCODE_RAW_LENGTH(L1 + L2) + 1];
    struct base64_encode_ctx e;
    base64_encode_init(&e);
    size_t k = base64_encode_update(&e, enc, L1, x);
    k += base64_encode_update(&e, enc + k, L2, x + L1);
    k += base64_encode_final(&e, enc + k);
    base64_encode_raw(ref, L1 + L2, x);
    __CPROVER_assert(k == BASE64_ENCODE_RAW_LENGTH(L1 + L2), "ensures: chunked encoding has the padded length of the whole input");
#ifdef TWIN_CHUNKED
    __CPROVER_assert(!(g < k) || enc[g] != ref[g], "ensures: TWIN (negated) chunked == one-shot");
#else
    __CPROVER_assert(!(g < k) || enc[g] == ref[g], "ensures: chunked encoding == one-shot encoding, byte for byte (ghost index)");
#endif
    struct base64_decode_ctx d;
    base64_decode_init(&d);
    uint8_t out[BASE64_DECODE_LENGTH(BASE64_ENCODE_RAW_LENGTH(L1 + L2)) + 1]; size_t n = 0;
    int ok = base64_decode_update(&d, &n, out, k, enc);
    int fin = base64_decode_final(&d);
    __CPROVER_assert(ok == 1 && fin == 1 && n == L1 + L2, "ensures: decoding the chunked encoding is accepted with the original length");
    __CPROVER_assert(!(g < L1 + L2) || out[g] == x[g], "ensures: decode(chunked encode(x))[g] == x[g] (ghost index)");
#ifdef REACH
    __CPROVER_assert(!(x[0] == 0xff && enc[0] == '/'), "reach: first byte 0xff encodes to '/'");
    __CPROVER_assert(!(x[L1 + L2 - 1] == 0), "reach: last byte zero");
#endif
}
#endif

/* ---------- malformed quads: a 4-character input without white space is accepted by update+final IFF it is a canonical quad ---------- */
#if defined(T_STRICT4)
void h_strict4(void)
{
    char s[4];
    __CPROVER_assume(SPEC_DEC((int)(uint8_t)s[0]) != -2 && SPEC_DEC((int)(uint8_t)s[1]) != -2 &&
                     SPEC_DEC((int)(uint8_t)s[2]) != -2 && SPEC_DEC((int)(uint8_t)s[3]) != -2);      /* input domain: no white space */
    struct base64_decode_ctx d;
    base64_decode_init(&d);
    uint8_t out[BASE64_DECODE_LENGTH(4)]; size_t n = 0;
    int ok = base64_decode_update(&d, &n, out, 4, s);
    int fin = base64_decode_final(&d);
    int wf = spec_wellformed_quad(s);
    __CPROVER_assert(!(wf > 0) || (ok == 1 && fin == 1 && n == (size_t)wf), "ensures: every canonical quad is accepted and yields its 1, 2 or 3 bytes");
#ifdef TWIN_STRICT4
    __CPROVER_assert(!(wf == 0 && s[0] != 'A'), "ensures: TWIN (negated)");
#else
    __CPROVER_assert(!(ok == 1 && fin == 1) || wf > 0, "ensures: malformed quad rejected (accepted by update+final => canonical RFC 4648 quad)");
#endif
#ifdef REACH
    __CPROVER_assert(!(ok == 0), "reach: rejected by update");
    __CPROVER_assert(!(ok == 1 && fin == 1 && n == 3), "reach: accepted, three bytes");
    __CPROVER_assert(!(ok == 1 && fin == 1 && n == 1), "reach: accepted, one byte");
#endif
}
#endif
#endif /* CV_NATIVE */
