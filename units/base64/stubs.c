/* Assumed models for the two process-killing calls in lib/base64.cc, turned into proof obligations:
 * squid's assert(EX) expands to  (EX) ? (void)0 : xassert("EX", file, line)  (compat/assert.h) and the real xassert
 * aborts the process; abort() likewise.  Reaching either is therefore reported as a failed obligation
 * ("in-code assert holds" / "abort() is unreachable") and execution stops there (assume(0)), as it does natively. */
void xassert(const char *msg, const char *file, int line)
{
    (void)msg; (void)file; (void)line;
    __CPROVER_assert(0, "in-code assert: an assert() of lib/base64.cc holds (xassert is never reached)");
    __CPROVER_assume(0);
}

void abort(void)
{
    __CPROVER_assert(0, "in-code abort: abort() in lib/base64.cc is unreachable");
    __CPROVER_assume(0);
}
