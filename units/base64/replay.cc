// Native replay for the base64 unit: compiles the REAL lib/base64.cc (current tree, repository implementation forced with
// HAVE_NETTLE_BASE64_H=0 exactly as the extraction rule does) with ASan+UBSan, feeds it the verifier's counterexample and
// re-evaluates the same postconditions (spec functions are #included from contract.c).
#include "replay.h"
#include <cstdlib>
#include <cstring>
#include <string>
#include <vector>
#include "squid.h"
#undef HAVE_NETTLE_BASE64_H
#define HAVE_NETTLE_BASE64_H 0
extern "C" void xassert(const char *msg, const char *file, int line)
{
    printf("REPLAY-FAIL: in-code assert(%s) failed at %s:%d\n", msg, file, line);
    exit(1);
}
#include REAL_BASE64_CC
#define CV_NATIVE 1
#define N 4096
namespace spec {
#include "contract.c"
}

extern "C" const char *__asan_default_options() { return "detect_leaks=0"; }   // buffers are deliberately not freed

static std::vector<uint8_t> bytes_of(const Cex &c, const char *key)
{
    std::vector<uint8_t> v;
    for (auto x : c.arr(key)) v.push_back((uint8_t)x);
    return v;
}

int main(int argc, char **argv)
{
    if (argc < 3) return 2;
    std::string mode = argv[1];
    Cex c; if (!c.load(argv[2])) return 2;

    if (mode == "enc_raw") {
        size_t length = (size_t)c.unum("length");
        std::vector<uint8_t> src = bytes_of(c, "dynamic_object");
        src.resize(length, 0);
        uint8_t *s = (uint8_t *)malloc(length ? length : 1); memcpy(s, src.data(), length);
        size_t rl = BASE64_ENCODE_RAW_LENGTH(length);
        char *d = (char *)malloc(rl ? rl : 1);
        base64_encode_raw(d, length, s);
        for (size_t i = 0; i < rl; i++)
            if (d[i] != spec::spec_raw_char(s, length, i)) RP_FAIL("encode_raw: byte %zu is 0x%02x, RFC 4648 says 0x%02x", i, (unsigned char)d[i], (unsigned char)spec::spec_raw_char(s, length, i));
        RP_OK("encode_raw exact for length %zu", length);
    }
    if (mode == "enc_update") {
        size_t length = (size_t)c.unum("length");
        unsigned word0 = (unsigned)c.unum("word0"), bits0 = (unsigned)c.unum("bits0");
        std::vector<uint8_t> src = bytes_of(c, "dynamic_object");
        src.resize(length, 0);
        uint8_t *s = (uint8_t *)malloc(length ? length : 1); memcpy(s, src.data(), length);
        size_t el = BASE64_ENCODE_LENGTH(length);
        char *d = (char *)malloc(el ? el : 1);
        struct base64_encode_ctx e; base64_encode_init(&e); e.word = (unsigned short)word0; e.bits = (unsigned char)bits0;
        size_t done = base64_encode_update(&e, d, length, s);
        if (done != (bits0 + 8 * length) / 6) RP_FAIL("encode_update: %zu characters, expected %zu", done, (size_t)((bits0 + 8 * length) / 6));
        if (e.bits != (bits0 + 8 * length) % 6) RP_FAIL("encode_update: ctx->bits = %u", e.bits);
        for (size_t i = 0; i < done; i++)
            if (d[i] != SPEC_ENC((int)spec::spec_stream_sextet(word0, bits0, s, i))) RP_FAIL("encode_update: character %zu differs from the bit stream", i);
        RP_OK("encode_update exact for length %zu, %u buffered bits", length, bits0);
    }
    if (mode == "roundtrip" || mode == "group") {
        std::vector<uint8_t> x = bytes_of(c, "x");
        size_t len = (size_t)c.unum(mode == "group" ? "L" : "len");
        x.resize(len, 0);
        std::vector<char> enc(base64_encode_len(len));
        struct base64_encode_ctx e; base64_encode_init(&e);
        size_t k = base64_encode_update(&e, enc.data(), len, x.data());
        k += base64_encode_final(&e, enc.data() + k);
        if (k != BASE64_ENCODE_RAW_LENGTH(len)) RP_FAIL("encoded length %zu != %zu", k, (size_t)BASE64_ENCODE_RAW_LENGTH(len));
        std::vector<char> raw(k ? k : 1);
        base64_encode_raw(raw.data(), len, x.data());
        if (memcmp(raw.data(), enc.data(), k) != 0) RP_FAIL("encode_raw and init/update/final disagree");
        char *in = (char *)malloc(k ? k : 1); memcpy(in, enc.data(), k);
        size_t dl = BASE64_DECODE_LENGTH(k);
        uint8_t *out = (uint8_t *)malloc(dl ? dl : 1); size_t n = 0;
        struct base64_decode_ctx d; base64_decode_init(&d); d.word = (unsigned short)c.unum("w", 0);
        int ok = base64_decode_update(&d, &n, out, k, in);
        int fin = base64_decode_final(&d);
        printf("len=%zu encoded=\"%.*s\" ok=%d final=%d n=%zu\n", len, (int)k, enc.data(), ok, fin, n);
        if (!(ok == 1 && fin == 1 && n == len)) RP_FAIL("decode(encode(x)) rejected or wrong length");
        if (memcmp(out, x.data(), len) != 0) RP_FAIL("decode(encode(x)) != x");
        RP_OK("round trip holds");
    }
    if (mode == "strict4") {
        std::vector<uint8_t> sv = bytes_of(c, "s");
        sv.resize(4, 0);
        char *s = (char *)malloc(4); memcpy(s, sv.data(), 4);
        uint8_t *out = (uint8_t *)malloc(BASE64_DECODE_LENGTH(4)); size_t n = 0;
        struct base64_decode_ctx d; base64_decode_init(&d);
        int ok = base64_decode_update(&d, &n, out, 4, s);
        int fin = base64_decode_final(&d);
        int wf = spec::spec_wellformed_quad(s);
        printf("input=\"%c%c%c%c\" (%02x %02x %02x %02x) update=%d final=%d n=%zu canonical=%d\n", s[0], s[1], s[2], s[3], sv[0], sv[1], sv[2], sv[3], ok, fin, n, wf);
        if (ok == 1 && fin == 1 && wf == 0) RP_FAIL("malformed quad accepted by base64_decode_update + base64_decode_final");
        if (wf > 0 && !(ok == 1 && fin == 1 && n == (size_t)wf)) RP_FAIL("canonical quad rejected or wrong length");
        RP_OK("quad handled per RFC 4648");
    }
    if (mode == "dec_update") {
        // dfcc target: src bytes and length from the call's actual parameters; ctx = init state with the ghost's buffered bit count
        // dfcc counterexample: the buffers are allocated by is_fresh inside the wrapper and appear only as dynamic objects;
        // every object of src_length bytes is replayed as src (the contract holds for all inputs, so any failure is a reproduction)
        size_t n = (size_t)c.unum("n", 0);
        std::vector<std::string> cands;
        for (auto &kv : c.kv)
            if (kv.first.rfind("dynamic_object", 0) == 0 && !kv.second.empty() && kv.second[0] != '@') {
                std::string b; for (auto x : c.arr(kv.first)) b.push_back((char)x);
                if (b.size() == n) cands.push_back(b);
            }
        if (cands.empty()) cands.push_back(std::string(n, 'A'));
        for (const std::string &src : cands)
            for (unsigned bits0 = 0; bits0 <= 6; bits0 += 2) {
                char *in = (char *)malloc(n ? n : 1); memcpy(in, src.data(), n);
                size_t dl = BASE64_DECODE_LENGTH(n);
                uint8_t *out = (uint8_t *)malloc(dl ? dl : 1); size_t got = 0;
                struct base64_decode_ctx d; base64_decode_init(&d); d.bits = (unsigned char)bits0;
                int ok = base64_decode_update(&d, &got, out, n, in);      // ASan reports writes past BASE64_DECODE_LENGTH(n)
                if (ok == 1 && got > dl) RP_FAIL("dst_length %zu > BASE64_DECODE_LENGTH(%zu)", got, n);
                for (size_t i = 0; i < n; i++)
                    if (SPEC_DEC((int)(uint8_t)in[i]) == -1 && ok != 0) RP_FAIL("invalid byte 0x%02x at %zu accepted", (unsigned char)in[i], i);
            }
        RP_OK("decode_update within bounds on this input");
    }
    return 2;
}
