/* Sidecar contracts for C27 "integer parsing is exact and overflow-safe".
 *   int64_core            = the statements of Parser::Tokenizer::int64 (src/parser/Tokenizer.cc) from `bool neg = false;`
 *                           to `return success(...)`, sliced at run time, zero rewrites (see unit.json / stubs/int64_env.h)
 *   httpHeaderParseInt, httpHeaderParseOffset = sliced whole from src/HttpHeaderTools.cc
 * Postconditions come from the property statement: the value returned is the exact (arbitrary-precision) value of the
 * digits consumed when that fits the result type, failure otherwise; never a wrapped value; the consumed length is
 * exactly prefix + digits; no undefined behaviour (the safety instrumentation of the sliced text: bounds, pointers,
 * SIGNED OVERFLOW, shifts, division by zero). */
#include <stddef.h>
#include <stdlib.h>

#ifndef N
#define N 16
#endif

typedef unsigned __int128 u128;
typedef __int128 i128;
#define TWO63 (1UL << 63)

/* ---- arbitrary-precision reference, saturating above every limit ---------------------------------------------
 * W[j] = min(v_j, 2^64-1) where v_j is the mathematical value of the first j digits: the step is computed in 128 bits
 * (w < 2^64, base <= 16, digit < 16: no 128-bit overflow) and clamped. v_j >= 2^64-1 implies v_{j+1} >= 2^64-1
 * (base >= 2), so the clamp is exact by induction, and for every limit L <= 2^63:  v_j <= L  <=>  W[j] <= L,
 * in which case W[j] == v_j. */
static unsigned long spec_step(unsigned long w, int base, unsigned d)
{
    /* the multiplier is one of three constants: written out so that the SAT encoding needs no general multiplier */
    u128 t = (base == 8 ? (u128)w * 8 : base == 10 ? (u128)w * 10 : (u128)w * 16) + d;
    return t > (u128)0xffffffffffffffffUL ? 0xffffffffffffffffUL : (unsigned long)t;
}
static unsigned spec_digit(unsigned char ch)
{
    if (ch >= '0' && ch <= '9') return ch - '0';
    if (ch >= 'a' && ch <= 'z') return ch - 'a' + 10u;
    if (ch >= 'A' && ch <= 'Z') return ch - 'A' + 10u;
    return 255;
}

#ifndef CV_NATIVE
/* ============================== Tokenizer::int64 core ============================== */
#if defined(T_INT64)
extern int cv_errno;

/* ghosts read by the loop invariant (loops.json); written only by the harness, before the call */
size_t g_p;               /* length of the sign / 0x prefix */
size_t g_K;               /* length of the maximal digit run after the prefix */
unsigned long g_lim;      /* largest magnitude that fits: 2^63-1, or 2^63 after '-' */
unsigned char D[N + 1];   /* digit value of byte g_p+i (255 = not alphanumeric / past the end) */
unsigned long W[N + 1];   /* W[j] = min(value of digits 0..j-1, 2^64-1) */

_Bool g_neg, g_spec_ok;     /* sign seen; "at least one digit and the exact value fits" */

/* THE CONTRACT (enforced with --dfcc; the ghosts are the reference values computed by the harness from the same bytes) */
int int64_core(const char *s0, size_t len, int base, int allowSign, long *result_p, size_t *consumed_p)
__CPROVER_requires(len >= 1)
__CPROVER_assigns(*result_p, *consumed_p, cv_errno)
/* succeeds iff there is at least one digit and the exact value fits int64: fails otherwise, never wraps */
__CPROVER_ensures((__CPROVER_return_value != 0) == g_spec_ok)
#ifdef TWIN_EXACT
__CPROVER_ensures(__CPROVER_return_value == 0 || (i128)*result_p != (g_neg ? -(i128)W[g_K] : (i128)W[g_K]))
#else
/* result == sign * exact value of the maximal digit run */
__CPROVER_ensures(__CPROVER_return_value == 0 || (i128)*result_p == (g_neg ? -(i128)W[g_K] : (i128)W[g_K]))
#endif
/* consumed == prefix + number of digits of the value, within the range */
__CPROVER_ensures(__CPROVER_return_value == 0 || (*consumed_p == g_p + g_K && *consumed_p <= len))
/* Tokenizer.h: result (and the parse position) untouched on failure */
__CPROVER_ensures(__CPROVER_return_value != 0 || (*result_p == __CPROVER_old(*result_p) && *consumed_p == __CPROVER_old(*consumed_p)))
;

#ifndef SIGN_DOMAIN
#define SIGN_DOMAIN 0     /* 0: all inputs; 1: inputs that never accumulate exactly 2^63 after '-'; 2: only those that do */
#endif

void h_int64(void)
{
    size_t len;
    __CPROVER_assume(len >= 1 && len <= N);      /* Tokenizer::int64 returns early on an empty range (atEnd() || limit == 0) */
    char *buf = malloc(len);                     /* exactly len bytes: any read at or past `end` is an obligation failure */
    __CPROVER_assume(buf != NULL);
#ifdef BASE
    int base = BASE;
#else
    int base;
    __CPROVER_assume(base == 0 || base == 8 || base == 10 || base == 16);
#endif
    int allowSign = SIGN;

    /* -- reference grammar (Tokenizer.h: "strtoll(3)-alike"): [sign if allowSign] ["0x"|"0X" if base 0/16] digits;
     *    base 0 = 16 after 0x, else 8 after a leading 0, else 10. A 0x prefix, once seen, is committed to. */
    size_t p = 0;
    _Bool neg = 0, pre_ok = 1;
    int eb = base;
    if (allowSign) {
        if (buf[0] == '-') { neg = 1; p = 1; }
        else if (buf[0] == '+') p = 1;
        if (p >= len) pre_ok = 0;
    }
    if (pre_ok) {
        if ((base == 0 || base == 16) && buf[p] == '0' && p + 1 < len && (buf[p + 1] == 'x' || buf[p + 1] == 'X')) {
            p += 2;
            eb = 16;
        }
        if (eb == 0) eb = (buf[p] == '0') ? 8 : 10;
        if (p >= len) pre_ok = 0;
    }
    for (size_t i = 0; i < N; i++)
        D[i] = (pre_ok && p + i < len) ? (unsigned char)spec_digit((unsigned char)buf[p + i]) : 255;
    D[N] = 255;
    size_t K = 0;
    for (size_t i = 0; i < N; i++)
        if (K == i && D[i] < eb) K = i + 1;
    W[0] = 0;
    for (size_t j = 0; j < N; j++)
        W[j + 1] = spec_step(W[j], eb, D[j] < eb ? D[j] : 0);
    const unsigned long lim = neg ? TWO63 : TWO63 - 1;
    g_p = p; g_K = pre_ok ? K : 0; g_lim = lim;

    /* does the accumulator ever hold exactly 2^63 after a minus sign? (candidate defect F1, DESIGN 7) */
    _Bool hits_min = 0;
    for (size_t j = 0; j <= N; j++)
        if (neg && pre_ok && j <= K && W[j] == TWO63) hits_min = 1;
#if SIGN_DOMAIN == 1
    __CPROVER_assume(!hits_min);
#elif SIGN_DOMAIN == 2
    __CPROVER_assume(hits_min);
#endif

    const _Bool spec_ok = pre_ok && K >= 1 && W[K] <= lim;
    g_neg = neg; g_spec_ok = spec_ok;

    long result;
    size_t consumed;
    cv_errno = 0;
    int r = int64_core(buf, len, base, allowSign, &result, &consumed);

    __CPROVER_assert(!(pre_ok && K >= 1 && W[K] > lim) || cv_errno == 34, "lemma: out-of-range input sets errno = ERANGE");
#ifdef REACH
    __CPROVER_assert(!(r != 0 && K == len - p && len == N), "reach: accepted, digits run to the end of a maximal range");
    __CPROVER_assert(!(r != 0 && p + K < len), "reach: accepted, stopped at a non-digit");
    __CPROVER_assert(!(r == 0 && pre_ok && K >= 1), "reach: rejected because the value does not fit");
    __CPROVER_assert(!(r == 0 && pre_ok && K == 0), "reach: rejected because there is no digit");
    __CPROVER_assert(!(r != 0 && W[K] == TWO63 - 1), "reach: accepted INT64_MAX");
    __CPROVER_assert(!(r != 0 && K >= 21 && W[K] > 1000 && W[K] < 100000), "reach: accepted with many leading zeros");
#if SIGN
    __CPROVER_assert(!(r != 0 && neg && result < 0), "reach: accepted a negative value");
    __CPROVER_assert(!(r == 0 && !pre_ok), "reach: rejected a bare sign");
#if SIGN_DOMAIN == 2
    __CPROVER_assert(!(r != 0 && result == (-9223372036854775807L - 1)), "reach: accepted INT64_MIN");
    __CPROVER_assert(!(r == 0 && hits_min), "reach: rejected a value that passed through 2^63");
#endif
#endif
#if !defined(BASE) || BASE == 0 || BASE == 16
    __CPROVER_assert(!(r != 0 && p >= 2 && eb == 16), "reach: accepted with a 0x prefix");
#endif
#if !defined(BASE) || BASE == 0
    __CPROVER_assert(!(r != 0 && eb == 8 && W[K] > 7), "reach: accepted auto-detected octal");
    __CPROVER_assert(!(r != 0 && eb == 10 && base == 0), "reach: accepted auto-detected decimal");
#endif
#endif
}
#endif /* T_INT64 */
#endif /* CV_NATIVE */
