/* Sidecar contracts for C27 "integer parsing is exact and overflow-safe".
 *   int64_core            = the statements of Parser::Tokenizer::int64 (src/parser/Tokenizer.cc) from `bool neg = false;`
 *                           to `return success(...)`, sliced at run time, zero text rewrites (see unit.json / stubs/int64_env.h)
 *   httpHeaderParseInt, httpHeaderParseOffset = sliced whole from src/HttpHeaderTools.cc
 * Postconditions come from the property statement: the value returned is the exact (arbitrary-precision) value of the
 * digits consumed when that fits the result type, failure otherwise; never a wrapped value; the consumed length is
 * exactly prefix + digits; no undefined behaviour (the safety instrumentation of the sliced text: bounds, pointers,
 * SIGNED OVERFLOW, shifts, division by zero). */
#include <stddef.h>
#include <stdlib.h>

#ifndef N
#define N 16
#endif

typedef unsigned __int128 u128;
typedef __int128 i128;
#define TWO63 (1UL << 63)

/* ---- arbitrary-precision reference, saturating above every limit ---------------------------------------------
 * W[j] = min(v_j, 2^64-1) where v_j is the mathematical value of the first j digits: the step is computed in 128 bits
 * (w < 2^64, base <= 16, digit < 16: no 128-bit overflow) and clamped. v_j >= 2^64-1 implies v_{j+1} >= 2^64-1
 * (base >= 2), so the clamp is exact by induction, and for every limit L <= 2^63:  v_j <= L  <=>  W[j] <= L,
 * in which case W[j] == v_j. */
static unsigned long spec_step(unsigned long w, int base, unsigned d)
{
    /* the multiplier is one of three constants: written out so that the SAT encoding needs no general multiplier */
    u128 t = (base == 8 ? (u128)w * 8 : base == 10 ? (u128)w * 10 : (u128)w * 16) + d;
    return t > (u128)0xffffffffffffffffUL ? 0xffffffffffffffffUL : (unsigned long)t;
}
static unsigned spec_digit(unsigned char ch)
{
    if (ch >= '0' && ch <= '9') return ch - '0';
    if (ch >= 'a' && ch <= 'z') return ch - 'a' + 10u;
    if (ch >= 'A' && ch <= 'Z') return ch - 'A' + 10u;
    return 255;
}

#ifndef CV_NATIVE
/* ============================== Tokenizer::int64 core ============================== */
#if defined(T_INT64)
extern int cv_errno;

/* ghosts read by the loop invariant (loops.json); written only by the harness, before the call */
size_t g_p;               /* length of the sign / 0x prefix */
size_t g_K;               /* length of the maximal digit run after the prefix */
unsigned long g_lim;      /* largest magnitude that fits: 2^63-1, or 2^63 after '-' */
unsigned char D[N + 1];   /* digit value of byte g_p+i (255 = not alphanumeric / past the end) */
unsigned long W[N + 1];   /* W[j] = min(value of digits 0..j-1, 2^64-1) */

_Bool g_neg, g_spec_ok;     /* sign seen; "at least one digit and the exact value fits" */

/* THE CONTRACT (enforced with --dfcc; the ghosts are the reference values computed by the harness from the same bytes) */
int int64_core(const char *s0, size_t len, int base, int allowSign, long *result_p, size_t *consumed_p)
__CPROVER_requires(len >= 1)
__CPROVER_assigns(*result_p, *consumed_p, cv_errno)
/* succeeds iff there is at least one digit and the exact value fits int64: fails otherwise, never wraps */
__CPROVER_ensures((__CPROVER_return_value != 0) == g_spec_ok)
#ifdef TWIN_EXACT
__CPROVER_ensures(__CPROVER_return_value == 0 || (i128)*result_p != (g_neg ? -(i128)W[g_K] : (i128)W[g_K]))
#else
/* result == sign * exact value of the maximal digit run */
__CPROVER_ensures(__CPROVER_return_value == 0 || (i128)*result_p == (g_neg ? -(i128)W[g_K] : (i128)W[g_K]))
#endif
/* consumed == prefix + number of digits of the value, within the range */
__CPROVER_ensures(__CPROVER_return_value == 0 || (*consumed_p == g_p + g_K && *consumed_p <= len))
/* Tokenizer.h: result (and the parse position) untouched on failure */
__CPROVER_ensures(__CPROVER_return_value != 0 || (*result_p == __CPROVER_old(*result_p) && *consumed_p == __CPROVER_old(*consumed_p)))
;

#ifndef SIGN_DOMAIN
#define SIGN_DOMAIN 0     /* 0: all inputs; 1: inputs that never accumulate exactly 2^63 after '-'; 2: only those that do */
#endif

void h_int64(void)
{
    size_t len;
    __CPROVER_assume(len >= 1 && len <= N);      /* Tokenizer::int64 returns early on an empty range (atEnd() || limit == 0) */
    char *buf = malloc(len);                     /* exactly len bytes: any read at or past `end` is an obligation failure */
    __CPROVER_assume(buf != NULL);
#ifdef BASE
    int base = BASE;
#else
    int base;
    __CPROVER_assume(base == 0 || base == 8 || base == 10 || base == 16);
#endif
    int allowSign = SIGN;

    /* -- reference grammar (Tokenizer.h: "strtoll(3)-alike"): [sign if allowSign] ["0x"|"0X" if base 0/16] digits;
     *    base 0 = 16 after 0x, else 8 after a leading 0, else 10. A 0x prefix, once seen, is committed to. */
    size_t p = 0;
    _Bool neg = 0, pre_ok = 1;
    int eb = base;
    if (allowSign) {
        if (buf[0] == '-') { neg = 1; p = 1; }
        else if (buf[0] == '+') p = 1;
        if (p >= len) pre_ok = 0;
    }
    if (pre_ok) {
        if ((base == 0 || base == 16) && buf[p] == '0' && p + 1 < len && (buf[p + 1] == 'x' || buf[p + 1] == 'X')) {
            p += 2;
            eb = 16;
        }
        if (eb == 0) eb = (buf[p] == '0') ? 8 : 10;
        if (p >= len) pre_ok = 0;
    }
    for (size_t i = 0; i < N; i++)
        D[i] = (pre_ok && p + i < len) ? (unsigned char)spec_digit((unsigned char)buf[p + i]) : 255;
    D[N] = 255;
    size_t K = 0;
    for (size_t i = 0; i < N; i++)
        if (K == i && D[i] < eb) K = i + 1;
    W[0] = 0;
    for (size_t j = 0; j < N; j++)
        W[j + 1] = spec_step(W[j], eb, D[j] < eb ? D[j] : 0);
    const unsigned long lim = neg ? TWO63 : TWO63 - 1;
    g_p = p; g_K = pre_ok ? K : 0; g_lim = lim;

    /* does the accumulator ever hold exactly 2^63 after a minus sign? (candidate defect F1, DESIGN 7) */
    _Bool hits_min = 0;
    for (size_t j = 0; j <= N; j++)
        if (neg && pre_ok && j <= K && W[j] == TWO63) hits_min = 1;
#if SIGN_DOMAIN == 1
    __CPROVER_assume(!hits_min);
#elif SIGN_DOMAIN == 2
    __CPROVER_assume(hits_min);
#endif

    const _Bool spec_ok = pre_ok && K >= 1 && W[K] <= lim;
    g_neg = neg; g_spec_ok = spec_ok;

    long result;
    size_t consumed;
    cv_errno = 0;
    int r = int64_core(buf, len, base, allowSign, &result, &consumed);

    __CPROVER_assert(!(pre_ok && K >= 1 && W[K] > lim) || cv_errno == 34, "lemma: out-of-range input sets errno = ERANGE");
#ifdef REACH
    __CPROVER_assert(!(r != 0 && K == len - p && len == N), "reach: accepted, digits run to the end of a maximal range");
    __CPROVER_assert(!(r != 0 && p + K < len), "reach: accepted, stopped at a non-digit");
    __CPROVER_assert(!(r == 0 && pre_ok && K >= 1), "reach: rejected because the value does not fit");
#if SIGN_DOMAIN != 2
    __CPROVER_assert(!(r == 0 && pre_ok && K == 0), "reach: rejected because there is no digit");
    __CPROVER_assert(!(r != 0 && W[K] == TWO63 - 1), "reach: accepted INT64_MAX");
    __CPROVER_assert(!(r != 0 && K >= 21 && W[K] > 1000 && W[K] < 100000), "reach: accepted with many leading zeros");
#endif
#if SIGN
    __CPROVER_assert(!(r != 0 && neg && result < 0), "reach: accepted a negative value");
#if SIGN_DOMAIN != 2
    __CPROVER_assert(!(r == 0 && !pre_ok), "reach: rejected a bare sign");
    __CPROVER_assert(!(r != 0 && neg && W[K] == TWO63 - 1), "reach: accepted -INT64_MAX");
#else
    __CPROVER_assert(!(r != 0 && result == (-9223372036854775807L - 1)), "reach: accepted INT64_MIN");
    __CPROVER_assert(!(r == 0 && hits_min), "reach: rejected a value that passed through 2^63");
#endif
#endif
#if !defined(BASE) || BASE == 0 || BASE == 16
    __CPROVER_assert(!(r != 0 && p >= 2 && eb == 16), "reach: accepted with a 0x prefix");
#endif
#if !defined(BASE) || BASE == 0
    __CPROVER_assert(!(r != 0 && eb == 8 && base == 0 && W[K] > 7), "reach: accepted auto-detected octal");
    __CPROVER_assert(!(r != 0 && eb == 10 && base == 0), "reach: accepted auto-detected decimal");
#endif
#endif
}
#endif /* T_INT64 */

/* ============================== httpHeaderParseOffset / httpHeaderParseInt ==============================
 * The libc functions are ASSUMED (trusted, unit.json): strtoll(nptr, &end, 10) and atoi(nptr) follow C11 7.22.1.4 /
 * POSIX in the "C" locale: skip isspace() bytes, optional sign, maximal run of decimal digits; the exact value if it
 * fits, else LLONG_MAX / LLONG_MIN with errno = ERANGE; *end just after the last digit; no digits: returns 0,
 * *end = nptr, errno possibly EINVAL (POSIX "may"). atoi is glibc's: (int)strtol(nptr, NULL, 10) -- ISO C leaves an
 * unrepresentable result undefined; the truncation modelled here is what the running binary does.
 * The models below ARE those assumptions (constant-bound loops over the N-byte input). */
#if defined(T_OFFSET) || defined(T_PARSEINT)
extern int cv_errno;

struct numprefix { size_t ws; _Bool neg; size_t signlen; size_t K; unsigned long W; /* min(value, 2^64-1) */ };

static _Bool spec_isspace(char c) { return c == ' ' || (c >= 9 && c <= 13); }

static struct numprefix spec_prefix(const char *s)
{
    struct numprefix r = {0, 0, 0, 0, 0};
    for (size_t i = 0; i < N; i++)
        if (r.ws == i && spec_isspace(s[i])) r.ws = i + 1;
    if (s[r.ws] == '-') { r.neg = 1; r.signlen = 1; }
    else if (s[r.ws] == '+') r.signlen = 1;
    const size_t d0 = r.ws + r.signlen;
    for (size_t i = 0; i < N; i++)
        if (r.K == i && d0 + i < N && s[d0 + i] >= '0' && s[d0 + i] <= '9') {
            u128 t = (u128)r.W * 10 + (unsigned)(s[d0 + i] - '0');
            r.W = t > (u128)0xffffffffffffffffUL ? 0xffffffffffffffffUL : (unsigned long)t;
            r.K = i + 1;
        }
    return r;
}

struct numprefix g_q;
const char *g_buf;
_Bool nondet_bool(void);
long long strtoll(const char *nptr, char **endptr, int base)
{
    __CPROVER_assert(base == 10, "strtoll model: only base 10 is modelled");
    /* the reference decomposition of the input is computed once, by the harness (g_q = spec_prefix(g_buf)); the model
     * shares it instead of recomputing it (two separate 32-step multiplier chains are a needless SAT equivalence problem) */
    __CPROVER_assert(nptr == g_buf, "strtoll model: called on the start of the input string");
    const struct numprefix q = g_q;
    if (q.K == 0) {
        if (endptr) *endptr = (char *)nptr;
        if (nondet_bool()) cv_errno = 22;   /* EINVAL: allowed, not required */
        return 0;
    }
    if (endptr) *endptr = (char *)nptr + q.ws + q.signlen + q.K;
    if (q.neg) {
        if (q.W > TWO63) { cv_errno = 34; return (-9223372036854775807LL - 1); }
        return (long long)(0 - q.W);        /* unsigned negate then convert: exact for W <= 2^63 on this target */
    }
    if (q.W > TWO63 - 1) { cv_errno = 34; return 9223372036854775807LL; }
    return (long long)q.W;
}
/* strtol: on this LP64 target long == long long, so C11 7.22.1.4 gives it exactly strtoll's behaviour (assumed likewise) */
long strtol(const char *nptr, char **endptr, int base) { return (long)strtoll(nptr, endptr, base); }
int atoi(const char *nptr)
{
    const int saved = cv_errno;
    const long long v = strtoll(nptr, (char **)0, 10);
    cv_errno = saved;                        /* glibc's atoi does not promise anything about errno; keep it neutral */
    return (int)v;                           /* glibc: truncation */
}
void cv_assert_fail(void) { __CPROVER_assert(0, "assert() in the sliced text holds"); }

/* NUL-terminated input of at most N-1 characters in an exactly-sized heap block */
static char *make_cstring(size_t *lenp)
{
    size_t len;
    __CPROVER_assume(len < N);
    char *buf = malloc(len + 1);
    __CPROVER_assume(buf != NULL);
    buf[len] = 0;
    *lenp = len;
    return buf;
}
#endif

#if defined(T_OFFSET)
int cv_parse_offset(const char *start, long *value, char **endPtr);   /* = httpHeaderParseOffset(start, value, endPtr) ? 1 : 0 */
void h_offset(void)
{
    size_t len;
    char *buf = make_cstring(&len);
    const struct numprefix q = spec_prefix(buf);
    g_q = q; g_buf = buf;
    const unsigned long lim = q.neg ? TWO63 : TWO63 - 1;
    long value = 0x5a5a5a5a5a5a5a5aL;
    char *end = (char *)0;
    _Bool want_end;
    int r = cv_parse_offset(buf, &value, want_end ? &end : (char **)0);
    /* property: exact value when it fits in int64, failure otherwise, never a wrapped or saturated value */
    __CPROVER_assert((r != 0) == (q.K >= 1 && q.W <= lim), "ensures: succeeds iff at least one digit was consumed and the exact value fits int64");
#ifdef TWIN_EXACT
    __CPROVER_assert(!(r != 0) || (i128)value != (q.neg ? -(i128)q.W : (i128)q.W), "ensures: TWIN (negated) exact value");
#else
    __CPROVER_assert(!(r != 0) || (i128)value == (q.neg ? -(i128)q.W : (i128)q.W), "ensures: *value == sign * exact value of the digits consumed");
#endif
    __CPROVER_assert(!(r != 0 && want_end) || end == buf + q.ws + q.signlen + q.K, "ensures: *endPtr is just past the last digit of the value");
    __CPROVER_assert(!(r != 0 && want_end) || (end > buf && end <= buf + len), "ensures: at least one character consumed, none past the terminator");
    __CPROVER_assert((r != 0) || (value == 0x5a5a5a5a5a5a5a5aL && end == (char *)0), "ensures: outputs untouched on failure");
#ifdef REACH
    __CPROVER_assert(!(r != 0 && q.neg && value < -5), "reach: accepted a negative value");
    __CPROVER_assert(!(r != 0 && value == 9223372036854775807L), "reach: accepted INT64_MAX");
    __CPROVER_assert(!(r != 0 && value == (-9223372036854775807L - 1)), "reach: accepted INT64_MIN");
    __CPROVER_assert(!(r == 0 && q.K >= 1), "reach: rejected a value that does not fit");
    __CPROVER_assert(!(r == 0 && q.K == 0 && len == 0), "reach: rejected the empty string");
    __CPROVER_assert(!(r == 0 && q.K == 0 && len > 3), "reach: rejected a string without digits");
    __CPROVER_assert(!(r != 0 && want_end && *end != 0 && q.ws > 0), "reach: accepted with leading space and trailing bytes");
#endif
}
#endif

#if defined(T_PARSEINT)
int httpHeaderParseInt(const char *start, int *value);
void h_parseint(void)
{
    size_t len;
    char *buf = make_cstring(&len);
    const struct numprefix q = spec_prefix(buf);
    g_q = q; g_buf = buf;
    const unsigned long lim = q.neg ? (1UL << 31) : (1UL << 31) - 1;
    const _Bool fits = q.W <= lim;
#if INT_DOMAIN == 1
    __CPROVER_assume(fits);        /* domain split (not a weakening): the complement is target parseint_range */
#elif INT_DOMAIN == 2
    __CPROVER_assume(!fits);
#endif
    int value;
    int r = httpHeaderParseInt(buf, &value);
    /* property: "return the exact value of the digits they consume when it fits ..., and fail otherwise; never wrap" */
    __CPROVER_assert(!(r != 0) || fits, "ensures: never succeeds on a value that does not fit (no wrapped result)");
#ifdef TWIN_EXACT
    __CPROVER_assert(!(r != 0 && fits) || (long)value != (q.neg ? -(long)q.W : (long)q.W), "ensures: TWIN (negated) exact value");
#else
    __CPROVER_assert(!(r != 0 && fits) || (long)value == (q.neg ? -(long)q.W : (long)q.W), "ensures: *value == sign * exact value of the digits consumed");
#endif
    __CPROVER_assert(!(r != 0) || q.K >= 1, "ensures: success only if at least one digit was consumed");
    __CPROVER_assert(!(q.K >= 1 && fits && q.ws == 0 && q.signlen == 0) || r != 0, "ensures: a digit-led value that fits is accepted");
#ifdef REACH
#if INT_DOMAIN != 2
    __CPROVER_assert(!(r != 0 && value == 2147483647), "reach: accepted INT_MAX");
    __CPROVER_assert(!(r != 0 && value == 0), "reach: accepted zero");
    __CPROVER_assert(!(r != 0 && value < 0), "reach: accepted a negative value");
    __CPROVER_assert(!(r == 0 && len > 2), "reach: rejected a non-number");
    __CPROVER_assert(!(r == 0 && len == 0), "reach: rejected the empty string");
#else
    __CPROVER_assert(!(r == 0 && q.K == 10), "reach: a 10-digit out-of-range value rejected");
    __CPROVER_assert(!(r == 0 && q.K > 19 && q.neg), "reach: a negative value beyond long rejected");
#endif
#endif
}
#endif
#endif /* CV_NATIVE */
