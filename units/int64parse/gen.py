#!/usr/bin/env python3
"""int64parse/gen.py -- post-processes the slice the driver has just written to <build>/int64_core.cc.
cbmc's C++ parser reads `any < 0 || static_cast<uint64_t>(acc) > ...` as the start of a template-id `any<...>` and
stops with a parse error. Every comparison `any < 0` that is followed by `||` or `&&` is therefore parenthesised.
This is TOLERANT (any number of matches, reported below) rather than a must-fire rule, so that an edit of that very
line -- e.g. dropping the sticky `any < 0 ||` term -- still reaches the verifier instead of ending as
"extraction broke". Adding parentheses around a relational operand of || / && never changes the meaning."""
import os, re
p = os.path.join(os.environ["VERIF_BUILD_DIR"], "int64_core.cc")
t = open(p, encoding="utf-8", errors="surrogateescape").read()
t, n = re.subn(r'\bany < 0 (\|\||&&)', r'(any < 0) \1', t)
open(p, "w", encoding="utf-8", errors="surrogateescape").write(t)
print("DROP: src/parser/Tokenizer.cc:Tokenizer::int64 core: `any < 0 ||` -> `(any < 0) ||` x%d (parenthesised for cbmc's C++ parser; meaning unchanged)" % n)
