// Native replay for the int64parse unit (C27), compiled with ASan+UBSan (-fno-sanitize-recover):
//   mode int64    : the REAL Parser::Tokenizer::int64 -- {repo}/src/parser/Tokenizer.cc is compiled here, linked with
//                   the tree's own libsbuf/libbase/libcompat and test stubs exactly as tests/testTokenizer is
//   mode offset   : the same run-time slice of httpHeaderParseOffset the verifier saw, over the real glibc strtoll
//   mode parseint : ditto for httpHeaderParseInt over the real glibc atoi
// and re-evaluates the contract's postconditions against an independent __int128 reference.
#include "squid.h"
#include "parser/Tokenizer.h"
#include REAL_TOKENIZER_CC
#define CV_NATIVE_REPLAY 1
#include "parseoffset.cc"      // from the unit's build directory (extracted from {repo}/src/HttpHeaderTools.cc on this run)
#include "replay.h"
#include <string>

// leaks are irrelevant to the postconditions (RP_FAIL returns early); a leak report must not turn a passing replay into a failure
extern "C" const char *__asan_default_options() { return "detect_leaks=0"; }

typedef unsigned __int128 ru128;
typedef __int128 ri128;

static unsigned digitOf(unsigned char ch)
{
    if (ch >= '0' && ch <= '9') return ch - '0';
    if (ch >= 'a' && ch <= 'z') return ch - 'a' + 10u;
    if (ch >= 'A' && ch <= 'Z') return ch - 'A' + 10u;
    return 255;
}
static const ru128 HUGE_ = (ru128)1 << 100;   // saturation point of the reference (far above 2^64)

static std::string inputBytes(const Cex &c, const char *key, size_t len)
{
    std::string s = c.bytes(key);
    if (c.has("text")) s = c.kv.at("text");           // hand-written replay files: text=<literal>
    if (s.size() > len) s.resize(len);
    return s;
}

// returns 0 ok, 1 postcondition violated, 3 input skipped (known finding F1 domain, only when skipMin)
static int runInt64(const std::string &in, int base, const bool allowSign, const bool skipMin, const bool quiet = false)
{
    const size_t len = in.size();
    // reference
    size_t p = 0; bool neg = false, preOk = true; int eb = base;
    if (allowSign) { if (in[0] == '-') { neg = true; p = 1; } else if (in[0] == '+') p = 1; if (p >= len) preOk = false; }
    if (preOk) {
        if ((base == 0 || base == 16) && in[p] == '0' && p + 1 < len && (in[p + 1] == 'x' || in[p + 1] == 'X')) { p += 2; eb = 16; }
        if (eb == 0) eb = (p < len && in[p] == '0') ? 8 : 10;
        if (p >= len) preOk = false;
    }
    size_t K = 0; ru128 v = 0; bool hitsMin = false;
    while (preOk && p + K < len && digitOf((unsigned char)in[p + K]) < (unsigned)eb) {
        if (v < HUGE_) v = v * eb + digitOf((unsigned char)in[p + K]);
        ++K;
        if (neg && v == ((ru128)1 << 63)) hitsMin = true;
    }
    if (skipMin && hitsMin) return 3;
    const ru128 lim = neg ? ((ru128)1 << 63) : ((ru128)1 << 63) - 1;
    const bool specOk = preOk && K >= 1 && v <= lim;
    if (!quiet) printf("input=\"%s\" len=%zu base=%d allowSign=%d: reference %s, digits=%zu prefix=%zu\n", in.c_str(), len, base, allowSign,
           specOk ? "ACCEPT" : "REJECT", K, p);
    fflush(stdout);
    // the real thing (UBSan aborts on signed overflow inside)
    Parser::Tokenizer tok{SBuf(in.data(), in.size())};
    int64_t result = 0x5a5a5a5a5a5a5a5aL;
    const bool ok = tok.int64(result, base, allowSign);
    const size_t consumed = len - tok.remaining().length();
    if (!quiet) printf("Tokenizer::int64 -> %d result=%lld consumed=%zu\n", ok, (long long)result, consumed);
    if (quiet) return (ok != specOk || (ok && ((ri128)result != (neg ? -(ri128)v : (ri128)v) || consumed != p + K)) || (!ok && (result != 0x5a5a5a5a5a5a5a5aL || consumed != 0))) ? 1 : 0;
    if (ok != specOk) RP_FAIL("success=%d but the reference says %d", ok, specOk);
    if (ok && (ri128)result != (neg ? -(ri128)v : (ri128)v)) RP_FAIL("result is not the exact value");
    if (ok && consumed != p + K) RP_FAIL("consumed %zu, value has prefix %zu + %zu digits", consumed, p, K);
    if (!ok && (result != 0x5a5a5a5a5a5a5a5aL || consumed != 0)) RP_FAIL("failure touched result or position");
    RP_OK("postconditions hold on this input");
}

static int replayInt64(const Cex &c)
{
    size_t len = (size_t)c.num("len", 0);
    if (c.has("text")) len = c.kv.at("text").size();
    const std::string in = inputBytes(c, "buf", len);
    const int base = (int)c.num("base", 10);
    const bool allowSign = c.num("allowSign", 0) != 0;
    if (in.size() == len && len != 0) {
        const int rc = runInt64(in, base, allowSign, false);
        if (rc != 0) return rc;
    } else
        printf("counterexample carries no input bytes\n");
    // A failed loop-invariant obligation starts from a havocked loop state: the verifier's "input" is then not a real
    // failing input. Fall back to a fixed battery of boundary strings (every base and sign setting; inputs in the domain
    // of known finding F1 -- accumulator == 2^63 after '-' -- are skipped). A failure here is reported as such.
    static const char *const battery[] = {
        "0", "7", "08", "0x", "0x1f", "0X7fffffffffffffff", "0x8000000000000000", "0x7fffffffffffffff0", "0xffffffffffffffff",
        "9223372036854775807", "9223372036854775808", "9223372036854775810", "92233720368547758070", "92233720368547758080",
        "18446744073709551615", "18446744073709551616", "18446744073709551617", "99999999999999999999", "000000000000000000000042",
        "777777777777777777777", "1000000000000000000000", "10000000000000000000000", "0777777777777777777777", "7fffffffffffffff", "8000000000000000",
        "80000000000000000", "7fffffffffffffffF", "-9223372036854775807", "-9223372036854775809", "-92233720368547758070", "-", "+", "+5", "-0x10", "12a", "zz"
    };
    for (const char *s : battery)
        for (int b : {0, 8, 10, 16})
            for (int sign = 0; sign < 2; ++sign)
                if (runInt64(s, b, sign != 0, true, true) == 1) {
                    runInt64(s, b, sign != 0, true, false);
                    printf("(the failing input above is from the replay's boundary battery, not the verifier's counterexample)\n");
                    return 1;
                }
    RP_OK("postconditions hold on the counterexample input and on the boundary battery");
}

struct Pre { size_t ws = 0, signlen = 0, K = 0; bool neg = false; ru128 v = 0; };
static Pre prefixOf(const std::string &s)
{
    Pre q; size_t i = 0;
    while (i < s.size() && (s[i] == ' ' || (s[i] >= 9 && s[i] <= 13))) ++i;
    q.ws = i;
    if (i < s.size() && s[i] == '-') { q.neg = true; q.signlen = 1; ++i; } else if (i < s.size() && s[i] == '+') { q.signlen = 1; ++i; }
    while (i < s.size() && s[i] >= '0' && s[i] <= '9') { if (q.v < HUGE_) q.v = q.v * 10 + (s[i] - '0'); ++i; ++q.K; }
    return q;
}
static std::string cstringInput(const Cex &c)
{
    std::string s = c.has("text") ? c.kv.at("text") : c.bytes("buf");
    return std::string(s.c_str());      // up to the first NUL
}

static int replayOffset(const Cex &c)
{
    const std::string s = cstringInput(c);
    const Pre q = prefixOf(s);
    const ru128 lim = q.neg ? ((ru128)1 << 63) : ((ru128)1 << 63) - 1;
    const bool specOk = q.K >= 1 && q.v <= lim;
    char *heap = strdup(s.c_str());     // exact-size block: ASan sees any over-read
    int64_t value = 0x5a5a5a5a5a5a5a5aL; char *end = nullptr;
    const bool ok = httpHeaderParseOffset(heap, &value, &end);
    printf("input=\"%s\": httpHeaderParseOffset -> %d value=%lld end=+%ld; reference %s\n", s.c_str(), ok, (long long)value,
           end ? (long)(end - heap) : -1L, specOk ? "ACCEPT" : "REJECT");
    if (ok != specOk) RP_FAIL("success=%d but the reference says %d", ok, specOk);
    if (ok && (ri128)value != (q.neg ? -(ri128)q.v : (ri128)q.v)) RP_FAIL("value is not the exact value");
    if (ok && end != heap + q.ws + q.signlen + q.K) RP_FAIL("end pointer is not just past the digits");
    if (!ok && (value != 0x5a5a5a5a5a5a5a5aL || end)) RP_FAIL("failure touched the outputs");
    free(heap);
    RP_OK("postconditions hold on this input");
}

static int replayParseInt(const Cex &c)
{
    const std::string s = cstringInput(c);
    const Pre q = prefixOf(s);
    const ru128 lim = q.neg ? ((ru128)1 << 31) : ((ru128)1 << 31) - 1;
    const bool fits = q.v <= lim;
    char *heap = strdup(s.c_str());
    int value = 0x5a5a5a5a;
    const int ok = httpHeaderParseInt(heap, &value);
    printf("input=\"%s\": httpHeaderParseInt -> %d value=%d; exact value %s int\n", s.c_str(), ok, value, fits ? "fits" : "DOES NOT FIT");
    if (ok && !fits) RP_FAIL("accepted a number that does not fit int; stored the wrapped value %d", value);
    if (ok && (ri128)value != (q.neg ? -(ri128)q.v : (ri128)q.v)) RP_FAIL("value is not the exact value");
    if (ok && q.K == 0) RP_FAIL("accepted without a digit");
    free(heap);
    RP_OK("postconditions hold on this input");
}

int main(int argc, char **argv)
{
    if (argc < 3) return 2;
    const std::string mode = argv[1];
    Cex c; if (!c.load(argv[2])) return 2;
    if (mode == "int64") return replayInt64(c);
    if (mode == "offset") return replayOffset(c);
    if (mode == "parseint") return replayParseInt(c);
    return 2;
}
