// Surroundings of the Tokenizer::int64 slice (tier T3): exactly what the sliced statements touch.
//   int64_t/uint64_t, INT64_MIN/INT64_MAX  (LP64, as <cstdint> on this target)
//   errno, ERANGE                          (a plain global instead of glibc's thread-local lvalue)
//   xisdigit/xisalpha/xisupper             (the REAL compat/xis.h, over the stub <cctype>)
//   range.rawContent()/range.length()      (CvRange: a pointer and a length; SBuf itself is not compiled)
#ifndef CV_INT64_ENV_H
#define CV_INT64_ENV_H
#ifdef CV_NATIVE_REPLAY      /* native replay: the real libc / libstdc++ instead of the stubs */
#include <cstdint>
#include <cerrno>
#include <cctype>
#include <cstddef>
#include "compat/xis.h"
#else
typedef long int64_t;
typedef unsigned long uint64_t;
typedef unsigned long size_t;
#define INT64_MAX 9223372036854775807L
#define INT64_MIN (-9223372036854775807L - 1)
extern "C" int cv_errno;
#define errno cv_errno
#define ERANGE 34
#include "compat/xis.h"
#endif
struct CvRange {
    const char *p_;
    size_t n_;
    CvRange(const char *p, size_t n): p_(p), n_(n) {}
    const char *rawContent() const { return p_; }
    size_t length() const { return n_; }
};
#endif
