// Surroundings of the httpHeaderParseInt / httpHeaderParseOffset slices (tier T3).
//   debugs(section, level, stream-expression) -> no-op (the message expression is dropped, it has no side effects here)
//   assert(c)                                 -> obligation
//   strtoll / atoi                            -> assumed libc contracts (models in contract.c, listed as trusted)
#ifndef CV_OFFSET_ENV_H
#define CV_OFFSET_ENV_H
#include "int64_env.h"
#ifdef CV_NATIVE_REPLAY
#include <climits>
#include <cstdlib>
#include <cassert>
#undef debugs
#define debugs(SECTION, LEVEL, CONTENT) ((void)0)
#else
#define LLONG_MAX 9223372036854775807LL
#define LLONG_MIN (-9223372036854775807LL - 1)
#define debugs(SECTION, LEVEL, CONTENT) ((void)0)
extern "C" void cv_assert_fail(void);
#define assert(EX) ((EX) ? (void)0 : cv_assert_fail())
extern "C" long long strtoll(const char *nptr, char **endptr, int base);
extern "C" int atoi(const char *nptr);
extern "C" long strtol(const char *nptr, char **endptr, int base);
#define INT_MAX 2147483647
#define INT_MIN (-2147483647 - 1)
#endif
#endif
