/* Assumed models of the <cctype> functions used by the sliced text ("C" locale / ASCII; trusted, listed in unit.json).
 * Argument domain: ISO C allows EOF and 0..UCHAR_MAX; glibc's tables additionally cover -128..-1. The real code calls
 * tolower(*(s+1)) with a plain (signed) char, so the glibc domain is what is asserted here; see not_covered. */
int cv_errno;
#define DOM(c) __CPROVER_assert((c) >= -128 && (c) <= 255, "ctype stub: argument within glibc's table domain -128..255")
int isdigit(int c) { DOM(c); return c >= '0' && c <= '9'; }
int isupper(int c) { DOM(c); return c >= 'A' && c <= 'Z'; }
int islower(int c) { DOM(c); return c >= 'a' && c <= 'z'; }
int isalpha(int c) { DOM(c); return (c >= 'A' && c <= 'Z') || (c >= 'a' && c <= 'z'); }
int isspace(int c) { DOM(c); return c == ' ' || (c >= 9 && c <= 13); }
int tolower(int c) { DOM(c); return (c >= 'A' && c <= 'Z') ? c + ('a' - 'A') : c; }
int toupper(int c) { DOM(c); return (c >= 'a' && c <= 'z') ? c - ('a' - 'A') : c; }
/* strtoll / atoi: assumed contracts live in contract.c (parse-offset targets), not here */
