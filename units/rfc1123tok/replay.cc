// Native replay for the rfc1123tok unit: the extracted real text (month_names .. parse_date_elements, parse_date,
// Time::ParseRfc1123 as Time_ParseRfc1123, xstrncpy; from the build dir, i.e. the tree under test) is compiled natively
// with ASan+UBSan against the REAL strtok and the REAL timegm of libc.
//   mode text : the header text is the exact-size heap block of the counterexample (or a key text=<date> given by hand).
//               Oracle (property level): if the text has one of the three HTTP date shapes with a GMT/absent zone, a month
//               name and in-range fields, the returned time_t must be the one the text denotes (independent
//               days-from-civil computation); if it has such a shape but a bad zone / month / field it must be -1;
//               any other text: only the sanitizers judge.
//   mode copy : xstrncpy(dst[64], src, 64) on the counterexample's source block.
#include "replay.h"
#include <string>
#include <vector>
#include "squid.h"
extern "C" const char *__asan_default_options() { return "detect_leaks=0"; }
#include "rfc1123tok.c"
#include "xstr.c"

static long long days_from_civil(long long y, unsigned m, unsigned d)
{
    y -= m <= 2;
    const long long era = (y >= 0 ? y : y - 399) / 400;
    const unsigned yoe = (unsigned)(y - era * 400);
    const unsigned doy = (153 * (m + (m > 2 ? -3 : 9)) + 2) / 5 + d - 1;
    const unsigned doe = yoe * 365 + yoe / 4 - yoe / 100 + doy;
    return era * 146097 + (long long)doe - 719468;
}
static int monthIndex(const char *m)
{
    static const char *names[12] = {"jan","feb","mar","apr","may","jun","jul","aug","sep","oct","nov","dec"};
    for (int i = 0; i < 12; ++i)
        if (strncasecmp(m, names[i], 3) == 0) return i;
    return -1;
}

int main(int argc, char **argv)
{
    if (argc < 3) return 2;
    std::string mode = argv[1];
    Cex c; if (!c.load(argv[2])) return 2;
    if (mode == "copy") {
        std::string src = c.bytes("arg.src");
        if (src.empty() || src.back() != 0) src.push_back(0);
        char *blk = (char *)malloc(src.size()); memcpy(blk, src.data(), src.size());
        char dst[65]; dst[64] = 0x55;
        xstrncpy(dst, blk, 64);
        size_t sl = strlen(blk), want = sl < 63 ? sl : 63;
        if (dst[want] != 0 || memcmp(dst, blk, want) != 0 || dst[64] != 0x55) RP_FAIL("xstrncpy(dst, src, 64) is not the 63-character prefix");
        RP_OK("xstrncpy");
    }
    if (mode == "text") {
        std::string text;
        bool isnull = false;
        if (c.has("text")) text = c.kv["text"];
        else {
            isnull = c.num("null_arg") != 0;
            text = c.bytes("arg.str");
            if (text.empty()) for (auto x : c.arr("dynamic_object")) text.push_back((char)x);
        }
        size_t z = text.find('\0');
        if (z != std::string::npos) text.resize(z);
        char *blk = (char *)malloc(text.size() + 1); memcpy(blk, text.c_str(), text.size() + 1);   // exact-size block
        printf("date text \"%s\"%s\n", text.c_str(), isnull ? " (null argument)" : ""); fflush(stdout);
        time_t r = Time_ParseRfc1123(isnull ? nullptr : blk);
        printf("  ParseRfc1123 -> %lld\n", (long long)r);
        if (isnull) { if (r != -1) RP_FAIL("null argument accepted"); RP_OK("null"); }
        // reference: which grammar, which fields
        char wd[16], mon[8], zone[8]; int d, y, H, M, S; int n = 0; int shape = 0;
        zone[0] = 0;
        if (sscanf(text.c_str(), "%3[A-Za-z], %2d %3[A-Za-z] %4d %2d:%2d:%2d %3[A-Za-z]%n", wd, &d, mon, &y, &H, &M, &S, zone, &n) == 8 && (size_t)n == text.size() && text.size() == 29) shape = 1;
        else if (sscanf(text.c_str(), "%9[A-Za-z], %2d-%3[A-Za-z]-%2d %2d:%2d:%2d %3[A-Za-z]%n", wd, &d, mon, &y, &H, &M, &S, zone, &n) == 8 && (size_t)n == text.size() && strlen(wd) >= 6) { shape = 2; y += y < 70 ? 2000 : 1900; }
        else if (sscanf(text.c_str(), "%3[A-Za-z] %3[A-Za-z] %2d %2d:%2d:%2d %4d%n", wd, mon, &d, &H, &M, &S, &y, &n) == 7 && (size_t)n == text.size() && text.size() == 24) { shape = 3; }
        if (!shape) RP_OK("not one of the three shapes: no sanitizer report");
        int mi = monthIndex(mon);
        bool accept = (shape == 3 || strcmp(zone, "GMT") == 0) && mi >= 0 && strlen(mon) == 3 && d >= 1 && d <= 31 && H >= 0 && H <= 23 && M >= 0 && M <= 59 && S >= 0 && S <= 59;
        if (!accept) { if (r != -1) RP_FAIL("a text with a bad zone / month / field was accepted"); RP_OK("rejected as it must be"); }
        long long want = days_from_civil(y, (unsigned)mi + 1, (unsigned)d) * 86400LL + H * 3600LL + M * 60LL + S;
        printf("  denoted: %04d-%02d-%02d %02d:%02d:%02d = %lld\n", y, mi + 1, d, H, M, S, want);
        if ((long long)r != want) RP_FAIL("returned time differs from the denoted one");
        RP_OK("the returned time is the denoted one");
    }
    return 2;
}
