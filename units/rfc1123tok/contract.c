/* Harness-encoded contracts for parse_date + Time::ParseRfc1123 (src/time/rfc1123.cc), property C35: "whenever Squid
 * accepts a date string in IMF-fixdate, RFC 850 or asctime form, the time it returns is the one the string denotes".
 * Here: the WHOLE parse path from the header text to the calendar call.  timegm() is replaced by a recording model: the
 * broken-down fields handed to it must be exactly the ones the text denotes, it must be called exactly when the text is
 * acceptable, and its result must be returned unchanged.  The libc calendar itself (timegm) stays outside. */
#include <stddef.h>
#include <stdlib.h>
#include <string.h>
#include <time.h>

time_t Time_ParseRfc1123(const char *str);      /* Time::ParseRfc1123, renamed for C mode by an extraction rewrite */
char *xstrncpy(char *dst, const char *src, size_t n);
extern int cv_tok_calls;

#ifndef N
#define N 12
#endif

#ifdef TWIN
#define ENS(c, msg) __CPROVER_assert(!(c), "ensures: TWIN (negated) " msg)
#else
#define ENS(c, msg) __CPROVER_assert((c), "ensures: " msg)
#endif
#ifdef REACH
#define RCH(c, msg) __CPROVER_assert(!(c), "reach: " msg)
#else
#define RCH(c, msg)
#endif

#define IS_DIGIT(c) ((c) >= '0' && (c) <= '9')
#define IS_SEP(c) ((c) == ',' || (c) == ' ')
static int spec_up(int c) { return (c >= 'a' && c <= 'z') ? c - 32 : c; }
static int spec_lo(int c) { return (c >= 'A' && c <= 'Z') ? c + 32 : c; }
static int spec_month(char a, char b, char c)
{
    int x = spec_up((unsigned char)a), y = spec_lo((unsigned char)b), z = spec_lo((unsigned char)c);
    if (x == 'J' && y == 'a' && z == 'n') return 0;
    if (x == 'F' && y == 'e' && z == 'b') return 1;
    if (x == 'M' && y == 'a' && z == 'r') return 2;
    if (x == 'A' && y == 'p' && z == 'r') return 3;
    if (x == 'M' && y == 'a' && z == 'y') return 4;
    if (x == 'J' && y == 'u' && z == 'n') return 5;
    if (x == 'J' && y == 'u' && z == 'l') return 6;
    if (x == 'A' && y == 'u' && z == 'g') return 7;
    if (x == 'S' && y == 'e' && z == 'p') return 8;
    if (x == 'O' && y == 'c' && z == 't') return 9;
    if (x == 'N' && y == 'o' && z == 'v') return 10;
    if (x == 'D' && y == 'e' && z == 'c') return 11;
    return -1;
}

/* ---- recording model of timegm(): the observation point of the contract ---- */
static struct tm tg;
static int tg_calls;
static time_t tg_ret;
time_t timegm(struct tm *tm)
{
    tg = *tm;
    ++tg_calls;
    return tg_ret;
}

static char *blk(size_t n) { char *p = malloc(n); __CPROVER_assume(p != NULL); return p; }

/* the symbolic characters of one date; which of them a grammar uses is decided by the builders below */
struct date_chars {
    char w[9];                  /* weekday name letters */
    char d0, d1;                /* day */
    char m0, m1, m2;            /* month name */
    char y0, y1, y2, y3;        /* year */
    char h0, h1, mi0, mi1, s0, s1;
    char z0, z1, z2;            /* zone */
};

/* what the text denotes; -1 = must be rejected */
static void check(const struct date_chars *c, _Bool day2, _Bool year4, _Bool has_zone, time_t r, const char *what)
{
    int mday = day2 ? 10 * (c->d0 - '0') + (c->d1 - '0') : c->d1 - '0';
    int mon = spec_month(c->m0, c->m1, c->m2);
    int yy = 10 * (c->y2 - '0') + (c->y3 - '0');
    int yr = year4 ? 1000 * (c->y0 - '0') + 100 * (c->y1 - '0') + yy - 1900 : (yy < 70 ? yy + 100 : yy);  /* RFC 850 two-digit year: pivot at 70 */
    int hour = 10 * (c->h0 - '0') + (c->h1 - '0'), min = 10 * (c->mi0 - '0') + (c->mi1 - '0'), sec = 10 * (c->s0 - '0') + (c->s1 - '0');
    int gmt = !has_zone || (c->z0 == 'G' && c->z1 == 'M' && c->z2 == 'T');
    int accept = gmt && mon >= 0 && mday >= 1 && mday <= 31 && hour <= 23 && min <= 59 && sec <= 59;
    (void)what;
    ENS((tg_calls == 1) == (accept != 0) && tg_calls <= 1, "the calendar function is called (once) <=> zone GMT/absent, a month name, fields in range");
    if (tg_calls == 1) {
        ENS(tg.tm_mday == mday && tg.tm_mon == mon && tg.tm_year == yr, "day, month, year handed to timegm are the denoted ones");
        ENS(tg.tm_hour == hour && tg.tm_min == min && tg.tm_sec == sec, "hour, minute, second handed to timegm are the denoted ones");
        ENS(r == tg_ret, "ParseRfc1123 returns what the calendar function computed");
    } else
        ENS(r == (time_t)-1, "a rejected text yields -1");
    RCH(tg_calls == 1 && tg.tm_year == 94 && tg.tm_mon == 10 && tg.tm_mday == 6 && tg.tm_hour == 8 && tg.tm_min == 49 && tg.tm_sec == 37, "06 Nov 1994 08:49:37");
    RCH(tg_calls == 0 && gmt && mon >= 0, "rejected by the range check");
    RCH(tg_calls == 0 && mon < 0, "rejected month name");
}

static void assume_chars(const struct date_chars *c)
{
    __CPROVER_assume(IS_DIGIT(c->d0) && IS_DIGIT(c->d1) && IS_DIGIT(c->y0) && IS_DIGIT(c->y1) && IS_DIGIT(c->y2) && IS_DIGIT(c->y3));
    __CPROVER_assume(IS_DIGIT(c->h0) && IS_DIGIT(c->h1) && IS_DIGIT(c->mi0) && IS_DIGIT(c->mi1) && IS_DIGIT(c->s0) && IS_DIGIT(c->s1));
    /* name characters: anything that is not a terminator or a separator; a name token must not start with a digit
     * (that is what makes it a name for parse_date) */
    __CPROVER_assume(c->w[0] != 0 && !IS_SEP(c->w[0]) && !IS_DIGIT(c->w[0]));
    for (int i = 1; i < 9; i++) __CPROVER_assume(c->w[i] != 0 && !IS_SEP(c->w[i]));
    __CPROVER_assume(c->m0 != 0 && !IS_SEP(c->m0) && c->m1 != 0 && !IS_SEP(c->m1) && c->m2 != 0 && !IS_SEP(c->m2));
    __CPROVER_assume(c->z0 != 0 && !IS_SEP(c->z0) && !IS_DIGIT(c->z0) && c->z1 != 0 && !IS_SEP(c->z1) && c->z2 != 0 && !IS_SEP(c->z2));
}
static void reset(void) { tg_calls = 0; cv_tok_calls = 0; }

/* ---------- IMF-fixdate:  Sun, 06 Nov 1994 08:49:37 GMT ---------- */
#ifdef T_IMF
void h_imf(void)
{
    struct date_chars c; time_t ret;
    assume_chars(&c);
    __CPROVER_assume(!IS_DIGIT(c.m0));
    tg_ret = ret; reset();
    char *s = blk(30);
    const char t[30] = { c.w[0], c.w[1], c.w[2], ',', ' ', c.d0, c.d1, ' ', c.m0, c.m1, c.m2, ' ', c.y0, c.y1, c.y2, c.y3, ' ',
                         c.h0, c.h1, ':', c.mi0, c.mi1, ':', c.s0, c.s1, ' ', c.z0, c.z1, c.z2, 0 };
    for (int i = 0; i < 30; i++) s[i] = t[i];
    time_t r = Time_ParseRfc1123(s);
    check(&c, 1, 1, 1, r, "IMF-fixdate");
    RCH(tg_calls == 0 && !(c.z0 == 'G' && c.z1 == 'M' && c.z2 == 'T'), "zone other than GMT rejected");
    RCH(cv_tok_calls == 7, "six tokens and the final NULL");
}
#endif

/* ---------- RFC 850:  Sunday, 06-Nov-94 08:49:37 GMT  (weekday names have 6..9 letters) ---------- */
#ifdef T_RFC850
static void run850(const struct date_chars *c, const int wl)
{
    char *s = blk(wl + 25);
    int k = 0;
    for (int i = 0; i < wl; i++) s[k++] = c->w[i];
    const char t[25] = { ',', ' ', c->d0, c->d1, '-', c->m0, c->m1, c->m2, '-', c->y2, c->y3, ' ',
                         c->h0, c->h1, ':', c->mi0, c->mi1, ':', c->s0, c->s1, ' ', c->z0, c->z1, c->z2, 0 };
    for (int i = 0; i < 25; i++) s[k++] = t[i];
    time_t r = Time_ParseRfc1123(s);
    check(c, 1, 0, 1, r, "RFC 850");
    RCH(tg_calls == 1 && tg.tm_year == 137, "two-digit year 37 -> 2037");
    RCH(tg_calls == 1 && tg.tm_year == 70, "two-digit year 70 -> 1970");
    RCH(cv_tok_calls == 5, "four tokens and the final NULL");
}
#ifndef WL
#define WL 6            /* letters of the weekday name: one target per length 6..9 (Sunday .. Wednesday) */
#endif
void h_rfc850(void)
{
    struct date_chars c; time_t ret;
    assume_chars(&c);
    __CPROVER_assume(c.m0 != '-' && c.m1 != '-' && c.m2 != '-');       /* the month sits between the two dashes */
    tg_ret = ret; reset();
    run850(&c, WL);
}
#endif

/* ---------- asctime:  Sun Nov  6 08:49:37 1994  (day space-padded to two columns) ---------- */
#ifdef T_ASCTIME
void h_asctime(void)
{
    struct date_chars c; time_t ret; _Bool day2;
    assume_chars(&c);
    __CPROVER_assume(!IS_DIGIT(c.m0));
    tg_ret = ret; reset();
    char *s = blk(25);
    const char t[25] = { c.w[0], c.w[1], c.w[2], ' ', c.m0, c.m1, c.m2, ' ', day2 ? c.d0 : ' ', c.d1, ' ',
                         c.h0, c.h1, ':', c.mi0, c.mi1, ':', c.s0, c.s1, ' ', c.y0, c.y1, c.y2, c.y3, 0 };
    for (int i = 0; i < 25; i++) s[i] = t[i];
    time_t r = Time_ParseRfc1123(s);
    check(&c, day2, 1, 0, r, "asctime");
    RCH(tg_calls == 1 && !day2, "one-digit day");
    RCH(tg_calls == 1 && day2, "two-digit day");
    RCH(cv_tok_calls == 6, "five tokens and the final NULL");
}
#endif

/* ---------- arbitrary bytes: memory safety of the copy buffer and the token pointers ---------- */
#ifdef T_ANY
void h_any(void)
{
    size_t len; time_t ret; _Bool null_arg;
    __CPROVER_assume(len < N);
    tg_ret = ret; reset();
    char *s = blk(len + 1);     /* exact size: a read past the terminator fails a pointer check */
    s[len] = 0;
    time_t r = Time_ParseRfc1123(null_arg ? NULL : s);
    /* the obligations proper are the pointer / bounds / overflow checks instrumented into parse_date, parse_date_elements,
     * make_month, make_num, xstrncpy and the strtok model */
    ENS(tg_calls <= 1 && (tg_calls == 1 ? r == tg_ret : r == (time_t)-1), "arbitrary text: -1, or exactly one calendar call whose result is returned");
    if (tg_calls == 1)
        ENS(tg.tm_sec >= 0 && tg.tm_sec <= 59 && tg.tm_min >= 0 && tg.tm_min <= 59 && tg.tm_hour >= 0 && tg.tm_hour <= 23
            && tg.tm_mday >= 1 && tg.tm_mday <= 31 && tg.tm_mon >= 0 && tg.tm_mon <= 11,
            "the calendar function only ever sees in-range fields");
    if (null_arg)
        ENS(r == (time_t)-1 && tg_calls == 0 && cv_tok_calls == 0, "a null string is rejected before anything is read");
#if N >= 13
    RCH(tg_calls == 1, "some text shorter than N is accepted");     /* the shortest acceptable text has 12 characters ("1 Jan 70 0:0") */
#endif
    RCH(tg_calls == 0 && !null_arg && cv_tok_calls >= 4, "rejected after several tokens");
    RCH(!null_arg && len == 0, "empty text");
}
#endif

/* ---------- three concrete texts of 70 bytes, longer than parse_date's 64-byte copy buffer ---------- */
#ifdef T_LONG
static void run_long(const char first)
{
    const size_t len = 70;
    time_t ret;
    tg_ret = ret; reset();
    char *s = blk(len + 1);
    for (size_t i = 0; i < len; i++)
        s[i] = (i == 0) ? first : (i % 3 == 2 ? ' ' : 'x');    /* "xx xx xx ...": parse_date gives up at the fourth name */
    s[len] = 0;
    time_t r = Time_ParseRfc1123(s);
    /* obligations proper: the bounds checks on tmp[64] in xstrncpy / the strtok model / strchr */
    ENS(r == (time_t)-1 && tg_calls == 0, "an over-long text of name tokens is rejected");
    RCH(cv_tok_calls >= 4, "several tokens are cut from the copy");
}
/* fully concrete texts (symbolic execution then decides every branch): first token a name, a digit-first token, or preceded by a separator */
void h_long(void)
{
    run_long('x');
    run_long('1');
    run_long(' ');
}
#endif

/* ---------- xstrncpy(tmp, str, 64): the copy into parse_date's 64-byte buffer, inputs longer than the buffer ---------- */
#ifdef T_COPY
size_t g;       /* ghost index */
void h_copy(void)
{
    size_t len;
    __CPROVER_assume(len < 2 * 64);
    char *s = blk(len + 1);
    s[len] = 0;
    char dst[64 + 1];
    dst[64] = 0x55;             /* guard byte behind the 64 the callee may use */
    char *r = xstrncpy(dst, s, 64);
    size_t sl = 0;
    for (size_t i = 0; i < 2 * 64; i++) { if (s[i] == 0) break; sl++; }
    size_t want = sl < 63 ? sl : 63;
    ENS(r == dst && dst[want] == 0, "the copy is NUL-terminated inside the 64 bytes (truncated to 63 characters)");
    __CPROVER_assume(g < want);
    ENS(dst[g] == s[g] && dst[g] != 0, "the copy is a prefix of the source");
    ENS(dst[64] == 0x55, "nothing is written behind the 64 bytes");
    RCH(sl > 63, "source longer than the buffer: truncated");
    RCH(sl < 63 && sl > 0, "short source");
}
#endif
