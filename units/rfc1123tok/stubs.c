/* Model of strtok(3) for the rfc1123tok unit (trusted; listed in unit.json).  CBMC 6.11 ships no strtok body.
 * Sequential model over the one separator set parse_date uses (", "), written like the glibc implementation:
 * skip leading separators, return NULL at the terminator, otherwise cut the token at the next separator and remember
 * where to continue.  Compiled and safety-instrumented as user code: a scan that leaves the buffer fails a pointer check. */
#include <stddef.h>

static char *cv_tok_next;       /* strtok's hidden position */
int cv_tok_calls;               /* ghost: number of calls */

char *strtok(char *s, const char *delim)
{
    __CPROVER_assert(delim && delim[0] == ',' && delim[1] == ' ' && delim[2] == 0, "model: strtok is only modelled for the separator set \", \"");
    ++cv_tok_calls;
    if (s)
        cv_tok_next = s;
    if (!cv_tok_next)
        return NULL;
    char *p = cv_tok_next;
    while (*p == ',' || *p == ' ')
        ++p;
    if (!*p) {
        cv_tok_next = NULL;
        return NULL;
    }
    char *start = p;
    while (*p && *p != ',' && *p != ' ')
        ++p;
    if (*p) {
        *p = 0;
        cv_tok_next = p + 1;
    } else
        cv_tok_next = NULL;     /* glibc leaves it at the terminator: the next call returns NULL either way */
    return start;
}
