/* Interface between wrap.cc (C++: real HttpHdrCc text + assumed models) and contract.c (C: specification + harnesses).
 * A Cache-Control field value is presented to HttpHdrCc::parse() as the list of items the ASSUMED tokeniser
 * strListGetItem() yields: n items (0 <= n <= CC_KMAX); item k = the bytes items[k*CC_L .. k*CC_L + ilen[k]) , 1 <= ilen[k] <= CC_L.
 * The four assumed helpers answer per item with pre-decided, arbitrary verdicts:
 *   type[k]    what ccTypeByName() says about the directive name            (0 .. CC_T_OTHER)
 *   int_ok[k]  / int_val[k]   httpHeaderParseInt() verdict / value on the argument  (any int, negative included)
 *   q_ok[k]    / q_len[k]     httpHeaderParseQuotedString() verdict / length of the unquoted value
 *   nlen[k]    NOT a verdict: the directive-name length the CONTRACT computes from the bytes (index of the first '=' or ilen);
 *              the models assert that the code hands them exactly these bytes.                                          */
#ifndef CC_IO_H
#define CC_IO_H
#define CC_KMAX 5          /* capacity; the harness bounds n by -DK (3 quick / 5 thorough) */
#define CC_L    8          /* bytes per item row */

/* HttpHdrCcType values as declared in src/HttpHdrCc.h; wrap.cc static-asserts every one of them */
enum { CC_T_PUBLIC = 0, CC_T_PRIVATE, CC_T_NO_CACHE, CC_T_NO_STORE, CC_T_NO_TRANSFORM, CC_T_MUST_REVALIDATE, CC_T_PROXY_REVALIDATE,
       CC_T_MAX_AGE, CC_T_S_MAXAGE, CC_T_MAX_STALE, CC_T_MIN_FRESH, CC_T_ONLY_IF_CACHED, CC_T_STALE_IF_ERROR, CC_T_IMMUTABLE,
       CC_T_OTHER, CC_T_ENUM_END };
#define CC_MAX_STALE_ANY 0x7fffffff     /* HttpHdrCc::MAX_STALE_ANY (static-asserted) */
#define CC_UNTOUCHED (-7777)            /* what the wrapper puts into a getter's out-parameter before the call */

/* out[] of cc_parse(): the object's state AFTER parse(), read through the REAL accessors of src/HttpHdrCc.h */
enum {
    OUT_RET,                /* parse()'s return value */
    OUT_HAS0,               /* OUT_HAS0 + t = the has<Directive>() accessor of type t, t = 0 .. CC_T_IMMUTABLE (13) */
    OUT_NC_WITH = OUT_HAS0 + CC_T_OTHER,   /* hasNoCacheWithParameters() */
    OUT_NC_WITHOUT,         /* hasNoCacheWithoutParameters() */
    OUT_GET_MAX_AGE,        /* value delivered by hasMaxAge(&v) etc.; CC_UNTOUCHED when the getter left v alone */
    OUT_GET_S_MAXAGE,
    OUT_GET_MAX_STALE,
    OUT_GET_MIN_FRESH,
    OUT_GET_STALE_IF_ERROR,
    OUT_RAW_MASK,           /* the private data members themselves */
    OUT_RAW_MAX_AGE,
    OUT_RAW_S_MAXAGE,
    OUT_RAW_MAX_STALE,
    OUT_RAW_MIN_FRESH,
    OUT_RAW_STALE_IF_ERROR,
    OUT_PRIV_LEN, OUT_PRIV_TAG,     /* private_  (String model: length, ghost tag = 1 + index of the item whose quoted value it holds) */
    OUT_PRIV_PTR_OK,                /* hasPrivate(&p) delivered &private_ (or left p alone when not set) */
    OUT_NC_LEN, OUT_NC_TAG,         /* no_cache */
    OUT_NC_PTR_OK,
    OUT_OTHER_LEN,                  /* other.size() */
    /* ghosts of the assumed models */
    OUT_G_DONE,             /* strListGetItem() reported the end of the list to the caller */
    OUT_G_CALLS,            /* number of strListGetItem() calls */
    OUT_G_SEEN,             /* bit k = ccTypeByName() was asked about item k */
    OUT_G_CLASSIFIED,       /* number of ccTypeByName() calls */
    OUT_COUNT
};

/* pack events recorded by the Packable model (cc_pack) */
enum { EV_NAME = 1, EV_INT, EV_QUOTED, EV_OTHER };
#define CC_EVMAX 40
#endif
