// Native replay for the ccparse unit (T3): the same REAL slices (the build directory's HttpHdrCc.h copy and ccparse.inc / ccpack.inc)
// and the same assumed models compiled by g++ with ASan+UBSan; the contract's specification (contract.c) is re-evaluated on the
// counterexample's inputs.  Oracle = the property-level clauses only (ensures: texts), no exact-behaviour pins.
#define CV_NATIVE 1
#if __has_include("ccpack_ok.h")
#include "ccpack_ok.h"      // written by gen.py when the packInto slice resolved: #define CV_PACK 1
#endif
#include "replay.h"
static const char *g_fail = nullptr;
extern "C" void cv_native_fail(const char *txt) { if (!g_fail) g_fail = txt; printf("  violated: %s\n", txt); }
#include "wrap.cc"
#include "contract.c"

static const char *tname(int t)
{
    static const char *n[] = {"public", "private", "no-cache", "no-store", "no-transform", "must-revalidate", "proxy-revalidate", "max-age",
                              "s-maxage", "max-stale", "min-fresh", "only-if-cached", "stale-if-error", "immutable", "<unknown>"};
    return (t >= 0 && t <= 14) ? n[t] : "?";
}

#ifdef CV_PACK
static int replay_pack(const Cex &c)
{
    long st[ST_COUNT] = {0};
    auto v = c.arr("st");
    for (size_t i = 0; i < v.size() && i < ST_COUNT; ++i) st[i] = (long)v[i];
    for (int i = 0; i <= ST_MIN_FRESH; ++i)
        if (st[i] < -2147483647L - 1 || st[i] > 2147483647L) RP_OK("input outside the harness domain");
    for (int i = ST_PRIV_LEN; i <= ST_OTHER_LEN; ++i)
        if (st[i] < 0 || st[i] > 65535) RP_OK("input outside the harness domain");
    static struct evlog got, want;
    got.n = cc_pack(st, got.kind, got.sep, got.a, got.which);
    spec_pack(st, &want);
    printf("state: mask=0x%lx max-age=%ld s-maxage=%ld max-stale=%ld stale-if-error=%ld min-fresh=%ld |private_|=%ld |no_cache|=%ld |other|=%ld\n",
           st[0] & 0xffffffffL, st[1], st[2], st[3], st[4], st[5], st[6], st[7], st[8]);
    static const char *kinds[] = {"-", "name", "=int", "=\"list\"", "unknown-directives"};
    for (int i = 0; i < got.n || i < want.n; ++i) {
        const bool same = i < got.n && i < want.n && got.kind[i] == want.kind[i] && got.sep[i] == want.sep[i] && got.a[i] == want.a[i] && got.which[i] == want.which[i];
        printf("  piece %2d: printed %s%s %ld   expected %s%s %ld%s\n", i, i < got.n && got.sep[i] ? ", " : "", i < got.n ? kinds[got.kind[i] & 7 ? (got.kind[i] <= 4 ? got.kind[i] : 0) : 0] : "(none)",
               i < got.n ? got.a[i] : 0, i < want.n && want.sep[i] ? ", " : "", i < want.n ? kinds[want.kind[i]] : "(none)", i < want.n ? want.a[i] : 0, same ? "" : "   <-- differs");
        if (!same) g_fail = "packInto printed a different sequence of pieces than the directives set";
    }
    if (g_fail) RP_FAIL("%s", g_fail);
    RP_OK("packInto printed exactly the expected pieces");
}
#endif

template<class T> static void fill(const Cex &c, const char *key, T *dst, size_t cap)
{
    auto v = c.arr(key);
    for (size_t i = 0; i < cap; ++i) dst[i] = i < v.size() ? (T)v[i] : (T)0;
}

int main(int argc, char **argv)
{
    if (argc < 3) return 2;
    Cex c; if (!c.load(argv[2])) return 2;
    const std::string mode = argv[1];
    if (mode == "parse") {
        int n = (int)c.num("n");
        char items[CC_KMAX * CC_L];
        int ilen[CC_KMAX], nlen[CC_KMAX], int_ok[CC_KMAX], int_val[CC_KMAX], q_ok[CC_KMAX];
        unsigned char type[CC_KMAX];
        long q_len[CC_KMAX];
        fill(c, "items", items, sizeof(items)); fill(c, "ilen", ilen, CC_KMAX); fill(c, "int_ok", int_ok, CC_KMAX);
        fill(c, "int_val", int_val, CC_KMAX); fill(c, "q_ok", q_ok, CC_KMAX); fill(c, "type", type, CC_KMAX); fill(c, "q_len", q_len, CC_KMAX);
        if (n < 0 || n > CC_KMAX) RP_OK("input outside the harness domain (n)");
        for (int i = 0; i < CC_KMAX; ++i) {
            if (ilen[i] < 1 || ilen[i] > CC_L || type[i] > CC_T_OTHER || q_len[i] < 0 || q_len[i] > 65535) {
                if (i < n) RP_OK("input outside the harness domain (item %d)", i);
                ilen[i] = 1; type[i] = CC_T_OTHER; q_len[i] = 0;
            }
            nlen[i] = spec_nlen(items + i * CC_L, ilen[i]);
        }
        printf("Cache-Control items as the tokeniser yields them (name classified by the assumed look-up):\n");
        for (int i = 0; i < n; ++i) {
            printf("  [%d] %-16s", i, tname(type[i]));
            if (nlen[i] < ilen[i])
                printf(" '=' at byte %d, argument of %d byte(s): ParseInt -> %s %d, ParseQuotedString -> %s (len %ld)\n", nlen[i], ilen[i] - nlen[i] - 1,
                       int_ok[i] ? "ok" : "fail", int_val[i], q_ok[i] ? "ok" : "fail", q_len[i]);
            else
                printf(" no argument\n");
        }
        struct view v = { n, items, ilen, nlen, int_ok, int_val, q_ok, type, q_len };
        long out[OUT_COUNT] = {0}, fresh[OUT_COUNT] = {0};
        cc_fresh(fresh);
        cc_parse(n, items, ilen, nlen, type, int_ok, int_val, q_ok, q_len, out);
        printf("after parse(): ret=%ld mask=0x%lx hasPrivate=%ld hasNoStore=%ld hasNoCache=%ld hasPublic=%ld max-age=%ld s-maxage=%ld max-stale=%ld\n",
               out[OUT_RET], out[OUT_RAW_MASK], out[OUT_HAS0 + CC_T_PRIVATE], out[OUT_HAS0 + CC_T_NO_STORE], out[OUT_HAS0 + CC_T_NO_CACHE],
               out[OUT_HAS0 + CC_T_PUBLIC], out[OUT_RAW_MAX_AGE], out[OUT_RAW_S_MAXAGE], out[OUT_RAW_MAX_STALE]);
        check_parse_post(&v, out, fresh);
        if (g_fail) RP_FAIL("%s", g_fail);
        RP_OK("postconditions hold on this input");
    }
#ifdef CV_PACK
    if (mode == "pack")
        return replay_pack(c);
#endif
    return 2;
}
