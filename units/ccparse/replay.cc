// Native replay for the ccparse unit (T3): the same REAL slices (the build directory's HttpHdrCc.h copy and ccparse.inc / ccpack.inc)
// and the same assumed models compiled by g++ with ASan+UBSan; the contract's specification (contract.c) is re-evaluated on the
// counterexample's inputs.  Oracle = the property-level clauses only (ensures: texts), no exact-behaviour pins.
#define CV_NATIVE 1
#include "replay.h"
static const char *g_fail = nullptr;
extern "C" void cv_native_fail(const char *txt) { if (!g_fail) g_fail = txt; printf("  violated: %s\n", txt); }
#include "wrap.cc"
#include "contract.c"

static const char *tname(int t)
{
    static const char *n[] = {"public", "private", "no-cache", "no-store", "no-transform", "must-revalidate", "proxy-revalidate", "max-age",
                              "s-maxage", "max-stale", "min-fresh", "only-if-cached", "stale-if-error", "immutable", "<unknown>"};
    return (t >= 0 && t <= 14) ? n[t] : "?";
}

template<class T> static void fill(const Cex &c, const char *key, T *dst, size_t cap)
{
    auto v = c.arr(key);
    for (size_t i = 0; i < cap; ++i) dst[i] = i < v.size() ? (T)v[i] : (T)0;
}

int main(int argc, char **argv)
{
    if (argc < 3) return 2;
    Cex c; if (!c.load(argv[2])) return 2;
    const std::string mode = argv[1];
    if (mode == "parse") {
        int n = (int)c.num("n");
        char items[CC_KMAX * CC_L];
        int ilen[CC_KMAX], nlen[CC_KMAX], int_ok[CC_KMAX], int_val[CC_KMAX], q_ok[CC_KMAX];
        unsigned char type[CC_KMAX];
        long q_len[CC_KMAX];
        fill(c, "items", items, sizeof(items)); fill(c, "ilen", ilen, CC_KMAX); fill(c, "int_ok", int_ok, CC_KMAX);
        fill(c, "int_val", int_val, CC_KMAX); fill(c, "q_ok", q_ok, CC_KMAX); fill(c, "type", type, CC_KMAX); fill(c, "q_len", q_len, CC_KMAX);
        if (n < 0 || n > CC_KMAX) RP_OK("input outside the harness domain (n)");
        for (int i = 0; i < CC_KMAX; ++i) {
            if (ilen[i] < 1 || ilen[i] > CC_L || type[i] > CC_T_OTHER || q_len[i] < 0 || q_len[i] > 65535) {
                if (i < n) RP_OK("input outside the harness domain (item %d)", i);
                ilen[i] = 1; type[i] = CC_T_OTHER; q_len[i] = 0;
            }
            nlen[i] = spec_nlen(items + i * CC_L, ilen[i]);
        }
        printf("Cache-Control items as the tokeniser yields them (name classified by the assumed look-up):\n");
        for (int i = 0; i < n; ++i) {
            printf("  [%d] %-16s", i, tname(type[i]));
            if (nlen[i] < ilen[i])
                printf(" '=' at byte %d, argument of %d byte(s): ParseInt -> %s %d, ParseQuotedString -> %s (len %ld)\n", nlen[i], ilen[i] - nlen[i] - 1,
                       int_ok[i] ? "ok" : "fail", int_val[i], q_ok[i] ? "ok" : "fail", q_len[i]);
            else
                printf(" no argument\n");
        }
        struct view v = { n, items, ilen, nlen, int_ok, int_val, q_ok, type, q_len };
        long out[OUT_COUNT] = {0}, fresh[OUT_COUNT] = {0};
        cc_fresh(fresh);
        cc_parse(n, items, ilen, nlen, type, int_ok, int_val, q_ok, q_len, out);
        printf("after parse(): ret=%ld mask=0x%lx hasPrivate=%ld hasNoStore=%ld hasNoCache=%ld hasPublic=%ld max-age=%ld s-maxage=%ld max-stale=%ld\n",
               out[OUT_RET], out[OUT_RAW_MASK], out[OUT_HAS0 + CC_T_PRIVATE], out[OUT_HAS0 + CC_T_NO_STORE], out[OUT_HAS0 + CC_T_NO_CACHE],
               out[OUT_HAS0 + CC_T_PUBLIC], out[OUT_RAW_MAX_AGE], out[OUT_RAW_S_MAXAGE], out[OUT_RAW_MAX_STALE]);
        check_parse_post(&v, out, fresh);
        if (g_fail) RP_FAIL("%s", g_fail);
        RP_OK("postconditions hold on this input");
    }
#ifdef CV_PACK
    if (mode == "pack")
        return replay_pack(c);
#endif
    return 2;
}
