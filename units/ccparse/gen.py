#!/usr/bin/env python3
"""ccparse/gen.py -- run by the driver at extraction time, after the slices were cut.

cbmc's C++ front end deduces `auto` wrongly (every `const auto x = f()` becomes int, `auto &r = c ? a : b` does not compile).
Instead of one must-fire rewrite per `auto` in today's text (which turns every edit that introduces another `auto` into an
"extraction broke"), this script asks g++ what each `auto` declaration in the sliced text means:
   * after every statement `[const] auto [&|&&] NAME = ...;` it inserts `CvTypeProbe<decltype(NAME)> cv_probe_<k>;`
     (CvTypeProbe is declared, never defined), compiles wrap.cc natively (-fsyntax-only, -DCV_NATIVE, the same stub
     headers) and reads the deduced types from the "incomplete type" diagnostics;
   * any OTHER g++ error means the slice is not valid C++ against the stubs: extraction broke (exit 1 -> undecided);
   * the declarations are rewritten with the spelled-out type into <build>/ccparse.inc, which both goto-cc and the native replay compile
     (g++ would reject a wrong spelled-out reference type; for value declarations decltype is exact by definition).
Every resolution is printed as a DROP line (goes into the evidence)."""
import os, re, subprocess, sys

repo = os.environ["VERIF_REPO"]; bdir = os.environ["VERIF_BUILD_DIR"]; udir = os.environ["VERIF_UNIT_DIR"]
verif = os.path.dirname(os.path.dirname(udir))
DECL = re.compile(r'^([ \t]*)((?:static\s+)?(?:const\s+)?auto\s*(?:&&|&)?\s*)([A-Za-z_]\w*)(\s*=)', re.M)

def stmt_end(text, i):
    depth = 0
    while i < len(text):
        c = text[i]
        if c in "([{":
            depth += 1
        elif c in ")]}":
            depth -= 1
            if depth < 0:
                return None
        elif c == ';' and depth == 0:
            return i + 1
        elif c in "\"'":
            q = c; i += 1
            while i < len(text) and text[i] != q:
                if text[i] == '\\':
                    i += 1
                i += 1
        i += 1
    return None

def split_ternary(init):
    """init = `COND ? A : B` with `?` and its `:` at bracket depth 0 -> (COND, A, B), else None"""
    depth = 0; q = None; i = 0; nest = 0
    while i < len(init):
        c = init[i]
        if c in "([{":
            depth += 1
        elif c in ")]}":
            depth -= 1
        elif c in "\"'":
            return None            # literals in the initialiser: leave it alone
        elif depth == 0 and c == '?':
            if q is None:
                q = i
            else:
                nest += 1
        elif depth == 0 and c == ':':
            if init[i:i + 2] == '::':
                i += 2; continue
            if q is not None:
                if nest == 0:
                    return init[:q].strip(), init[q + 1:i].strip(), init[i + 1:].strip()
                nest -= 1
        i += 1
    return None

def native_ok(text, outname, defines):
    pdir = os.path.join(bdir, "final_" + outname); os.makedirs(pdir, exist_ok=True)
    with open(os.path.join(pdir, outname), "w", encoding="utf-8", errors="surrogateescape") as f:
        f.write(text)
    cmd = ["g++", "-std=c++17", "-fsyntax-only", "-w", "-DCV_NATIVE"] + defines + \
          ["-I", pdir, "-I", bdir, "-I", udir, "-I", os.path.join(udir, "stubs"), "-I", os.path.join(repo, "src"),
           "-I", os.path.join(verif, "cv", "include"), os.path.join(udir, "wrap.cc")]
    p = subprocess.run(cmd, stdout=subprocess.PIPE, stderr=subprocess.STDOUT, env=dict(os.environ, LC_ALL="C"))
    return p.returncode == 0, p.stdout.decode(errors="replace")

def resolve(rawname, outname, defines):
    """returns None on success, else an error text"""
    raw = open(os.path.join(bdir, rawname), encoding="utf-8", errors="surrogateescape").read()
    decls = []
    for m in DECL.finditer(raw):
        e = stmt_end(raw, m.end())
        if e is None:
            return "cannot find the end of the `auto` declaration of %s" % m.group(3)
        decls.append((m, e))
    probe = []; last = 0
    for k, (m, e) in enumerate(decls):
        probe.append(raw[last:e]); probe.append(" CvTypeProbe<decltype(%s)> cv_probe_%d;" % (m.group(3), k)); last = e
    probe.append(raw[last:])
    pdir = os.path.join(bdir, "probe_" + outname); os.makedirs(pdir, exist_ok=True)
    with open(os.path.join(pdir, outname), "w", encoding="utf-8", errors="surrogateescape") as f:
        f.write("template<class T> struct CvTypeProbe;\n" + "".join(probe))
    cmd = ["g++", "-std=c++17", "-fsyntax-only", "-w", "-fmax-errors=200", "-DCV_NATIVE"] + defines + \
          ["-I", pdir, "-I", bdir, "-I", udir, "-I", os.path.join(udir, "stubs"), "-I", os.path.join(repo, "src"),
           "-I", os.path.join(verif, "cv", "include"), os.path.join(udir, "wrap.cc")]
    p = subprocess.run(cmd, stdout=subprocess.PIPE, stderr=subprocess.STDOUT, env=dict(os.environ, LC_ALL="C"))
    out = p.stdout.decode(errors="replace")
    types = {}; other = []
    for line in out.splitlines():
        if "error:" not in line:
            continue
        pm = re.search(r"CvTypeProbe<(.+)> cv_probe_(\d+)", line)
        if pm:
            types[int(pm.group(2))] = pm.group(1).strip()
        else:
            other.append(line)
    if other or len(types) != len(decls) or (p.returncode != 0 and not decls):
        return ("the sliced text %s does not compile natively against the stubs (or an `auto` could not be resolved): " % rawname) + \
               " | ".join((other or out.splitlines())[:8])
    pieces = []; last = 0
    for k, (m, e) in enumerate(decls):
        t = types[k]
        pieces.append(raw[last:m.start()]); pieces.append("%s%s %s%s" % (m.group(1), t, m.group(3), m.group(4))); last = m.end()
        tern = split_ternary(raw[m.end():e - 1]) if (t.endswith("&") and not t.endswith("&&")) else None
        if tern:
            # cbmc 6.11 symex aborts (address_arithmetic invariant) on a reference bound to `c ? a : b`; for lvalue operands
            # `T &r = c ? a : b;` and `T &r = *(c ? &(a) : &(b));` mean the same, and g++ rejects the latter if a or b is no lvalue
            pieces.append(" *((%s) ? &(%s) : &(%s));" % tern); last = e
            print("DROP: src/HttpHdrCc.cc: reference `%s` bound to a conditional expression rewritten as `*(c ? &(a) : &(b))` "
                  "(cbmc symex cannot take the address of a conditional lvalue; checked with g++)" % m.group(3))
        print("DROP: src/HttpHdrCc.cc: `%s %s` spelled out as `%s %s` (type deduced by g++ decltype on this run; cbmc's C++ front end mis-deduces auto)"
              % (" ".join(m.group(2).split()), m.group(3), t, m.group(3)))
    pieces.append(raw[last:])
    final = "".join(pieces)
    ok, msg = native_ok(final, outname, defines)
    if not ok:
        return "the resolved text of %s does not compile natively: %s" % (rawname, " | ".join(l for l in msg.splitlines() if "error" in l)[:600])
    with open(os.path.join(bdir, outname), "w", encoding="utf-8", errors="surrogateescape") as f:
        f.write(final)
    return None

err = resolve("ccparse_raw.inc", "ccparse.inc", [])
if err:
    sys.stderr.write("gen.py: " + err + "\n"); sys.exit(1)
# the packInto slice serves one target only: if it does not resolve, only that target becomes undecided
err = resolve("ccpack_raw.inc", "ccpack.inc", ["-DCV_PACK"])
if err:
    with open(os.path.join(bdir, "ccpack.inc"), "w") as f:
        f.write("#error ccparse/gen.py: " + err.replace("\n", " ")[:600] + "\n")
    print("DROP: packInto slice unusable on this run: " + err[:300])
else:
    with open(os.path.join(bdir, "ccpack_ok.h"), "w") as f:        # tells replay.cc that the pack slice can be compiled in
        f.write("#define CV_PACK 1\n")
