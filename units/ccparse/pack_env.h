// Surroundings of the HttpHdrCc::packInto slice (target pack, -DCV_PACK).  TRUSTED models:
//   Packable::appendf   the real one is variadic (printf-like); modelled as the three NON-variadic overloads the call sites
//                       select, each of which checks the format string and records one event (kind, separator, value / length, buffer)
//   ccNameByType(flag)  the real one returns std::optional<const char*> = the name column of attrsList[] (whose row order the real
//                       file static_asserts); modelled as an identity token per directive, nullopt outside 0..CC_ENUM_END-1
#ifndef CC_PACK_ENV_H
#define CC_PACK_ENV_H

static long g_ev_kind[CC_EVMAX], g_ev_sep[CC_EVMAX], g_ev_a[CC_EVMAX];
static const char *g_ev_p[CC_EVMAX];
static int g_ev_n;
static const char cv_names[CC_T_ENUM_END][2] = {{0}};     // identity tokens: &cv_names[t][0] stands for the name of directive t

static bool cv_streq(const char *a, const char *b)
{
    int i = 0;
    for (; i < 12 && a[i] && a[i] == b[i]; ++i) { }
    return a[i] == b[i];
}
static void cv_event(long kind, long sep, long a, const char *p)
{
    CV_LEMMA(g_ev_n < CC_EVMAX, "model: more appendf() calls than the event log holds");
    if (g_ev_n < CC_EVMAX) { g_ev_kind[g_ev_n] = kind; g_ev_sep[g_ev_n] = sep; g_ev_a[g_ev_n] = a; g_ev_p[g_ev_n] = p; }
    ++g_ev_n;
}

class Packable
{
public:
    // appendf("%s" | ", %s", name)
    void appendf(const char *fmt, const char *s) {
        const bool sep = cv_streq(fmt, ", %s");
        CV_LEMMA(sep || cv_streq(fmt, "%s"), "model: appendf(fmt, const char *): unexpected format");
        CV_LEMMA(s >= &cv_names[0][0] && s <= &cv_names[CC_T_ENUM_END - 1][0], "model: appendf(%s): the string is not a directive name");
        cv_event(EV_NAME, sep, (s - &cv_names[0][0]) / 2, nullptr);
    }
    // appendf("=%d", value)
    void appendf(const char *fmt, int v) {
        CV_LEMMA(cv_streq(fmt, "=%d"), "model: appendf(fmt, int): unexpected format");
        cv_event(EV_INT, 0, v, nullptr);
    }
    // appendf("=\"%.*s\"", len, buf)  |  appendf("%.*s" | ", %.*s", len, buf)
    void appendf(const char *fmt, int len, const char *buf) {
        if (cv_streq(fmt, "=\"%.*s\"")) {
            cv_event(EV_QUOTED, 0, len, buf);
        } else {
            const bool sep = cv_streq(fmt, ", %.*s");
            CV_LEMMA(sep || cv_streq(fmt, "%.*s"), "model: appendf(fmt, int, const char *): unexpected format");
            cv_event(EV_OTHER, sep, len, buf);
        }
    }
};

struct CvOptName {
    const char *s;
    const char *operator*() const { CV_LEMMA(s != nullptr, "ensures: packInto never dereferences an empty optional directive name"); return s; }
};
static CvOptName ccNameByType(const HttpHdrCcType t)
{
    CvOptName r;
    const int idx = (int)t;
    r.s = (idx >= 0 && idx < CC_T_ENUM_END) ? &cv_names[idx][0] : nullptr;
    return r;
}
#endif
