/* Harness-encoded contracts for the ccparse unit: HttpHdrCc::parse() (+ setValue and the inline accessors of src/HttpHdrCc.h)
 * and HttpHdrCc::packInto().
 *
 * Where the clauses come from
 *   C11  "Squid never serves from cache a response that was sent with Cache-Control no-store or private ... unless that response
 *         allows shared caching (public, must-revalidate or s-maxage)": HttpStateData::reusableReply() (unit reusablereply) decides on
 *         hasPrivate()/hasNoStore()/hasPublic()/hasMustRevalidate()/hasSMaxAge()/hasNoCacheWith(out)Parameters(); so after parse()
 *         each of these must be true IFF the field value carries that directive -- for `private` WHATEVER its argument looks like
 *         (absent, quoted, unquoted, empty, unterminated: a broken argument must not make squid forget the word private).
 *   C12  "That lifetime comes from s-maxage, max-age ...; the exceptions are client max-stale ...; max-age=0 ... must-revalidate":
 *         the numeric directives are set exactly when the argument is a non-negative int, with that value; max-stale without a
 *         usable value means "any staleness" (MAX_STALE_ANY).
 *   C29  "Parsing a Cache-Control field value yields exactly the directives present: known flags, numeric values that fit and are
 *         not negative, and quoted field lists. Invalid numeric values are treated as absent."
 * All clauses quantify over the INPUT (the n items of the list), not over the calls parse() happened to make; the tokeniser model's
 * ghosts say that every item was fetched and classified and that the end of the list was reached.
 *
 * Deliberate asymmetry (the code's "to be safe" rule, kept by the contract): no-cache counts only with no argument or a well-formed
 * quoted one (a broken no-cache= is ignored: treating it as absent errs towards NOT revalidating, but RFC 9111 lets a cache ignore
 * a malformed directive), whereas private counts always (erring towards not storing).                                              */
#include <stddef.h>
#include "cc_io.h"
#ifndef K
#define K 3
#endif

struct view {
    int n;
    const char *items;
    const int *ilen, *nlen, *int_ok, *int_val, *q_ok;
    const unsigned char *type;
    const long *q_len;
};

/* directive-name length of an item: index of its first '=' (or the whole item) */
static int spec_nlen(const char *item, int ilen)
{
    for (int j = 0; j < CC_L; ++j)
        if (j < ilen && item[j] == '=')
            return j;
    return ilen;
}
static int has_arg(const struct view *v, int i) { return v->nlen[i] < v->ilen[i]; }
static int num_valid(const struct view *v, int i) { return has_arg(v, i) && v->int_ok[i] != 0 && v->int_val[i] >= 0; }
static int quoted_ok(const struct view *v, int i) { return has_arg(v, i) && v->q_ok[i] != 0; }
static int nocache_ok(const struct view *v, int i) { return !has_arg(v, i) || v->q_ok[i] != 0; }

/* first item of type t (-1: none) */
static int first_of(const struct view *v, int t)
{
    for (int i = 0; i < CC_KMAX; ++i)
        if (i < v->n && v->type[i] == t)
            return i;
    return -1;
}
/* first item of type t whose argument is a non-negative int */
static int first_valid_num(const struct view *v, int t)
{
    for (int i = 0; i < CC_KMAX; ++i)
        if (i < v->n && v->type[i] == t && num_valid(v, i))
            return i;
    return -1;
}
static int first_ok_nocache(const struct view *v)
{
    for (int i = 0; i < CC_KMAX; ++i)
        if (i < v->n && v->type[i] == CC_T_NO_CACHE && nocache_ok(v, i))
            return i;
    return -1;
}
static int is_numeric(int t) { return t == CC_T_MAX_AGE || t == CC_T_S_MAXAGE || t == CC_T_MIN_FRESH || t == CC_T_STALE_IF_ERROR; }
/* is known directive t (0..13) present in the list, in the sense of the properties? */
static int spec_present(const struct view *v, int t)
{
    if (is_numeric(t))
        return first_valid_num(v, t) >= 0;
    if (t == CC_T_NO_CACHE)
        return first_ok_nocache(v) >= 0;
    return first_of(v, t) >= 0;     /* flags, private (any argument), max-stale (any argument) */
}
static long spec_mask(const struct view *v)
{
    long m = 0;
    for (int t = 0; t < CC_T_OTHER; ++t)
        if (spec_present(v, t))
            m |= 1L << t;
    return m;
}
/* expected length of `other`: the unknown items joined by ", " */
static long spec_other_len(const struct view *v)
{
    long len = 0; int cnt = 0;
    for (int i = 0; i < CC_KMAX; ++i)
        if (i < v->n && v->type[i] == CC_T_OTHER) {
            len += v->ilen[i] + (cnt ? 2 : 0);
            ++cnt;
        }
    return len;
}

#ifndef CV_NATIVE
extern int cc_parse(int n, const char *items, const int *ilen, const int *nlen, const unsigned char *type,
                    const int *int_ok, const int *int_val, const int *q_ok, const long *q_len, long *out);
extern void cc_fresh(long *out);
#endif

#if defined(T_PARSE) || defined(CV_NATIVE)
/* the postcondition of parse() on a fresh object, as a list of (condition, text); shared by the harness and the native replay */
#ifdef CV_NATIVE
#define ENS(c, txt) do { if (!(c)) { cv_native_fail("ensures: " txt); } } while (0)
extern void cv_native_fail(const char *txt);
#else
#define ENS(c, txt) __CPROVER_assert((c), "ensures: " txt)
#endif
#define HAS(t) (out[OUT_HAS0 + (t)] != 0)
#define IFF(a, b) ((!(a)) == (!(b)))

static void check_numeric(const struct view *v, const long *out, const long *fresh, int t, int o_get, int o_raw)
{
    const int f = first_valid_num(v, t);
    if (f >= 0) {
        ENS(HAS(t), "a max-age / s-maxage / min-fresh / stale-if-error item whose argument is a non-negative int sets the directive");
#ifdef TWIN_NUM
        ENS(out[o_get] != v->int_val[f], "TWIN (negated) numeric value is the first valid one");
#else
        ENS(out[o_get] == v->int_val[f] && out[o_raw] == v->int_val[f],
            "the directive's value is that of the FIRST item with a valid argument (later duplicates change nothing)");
#endif
    } else {
        ENS(!HAS(t), "no item with a non-negative int argument: the numeric directive is absent (invalid values are treated as absent)");
        ENS(out[o_get] == CC_UNTOUCHED && out[o_raw] == fresh[o_raw],
            "absent numeric directive: the getter delivers nothing and the stored value is that of a fresh object (unknown)");
    }
}

static void check_parse_post(const struct view *v, const long *out, const long *fresh)
{
    /* ---- C11: the storability directives ---- */
#ifdef TWIN_PRIVATE
    ENS(!IFF(HAS(CC_T_PRIVATE), first_of(v, CC_T_PRIVATE) >= 0), "TWIN (negated) hasPrivate() iff some item is private");
#else
    ENS(IFF(HAS(CC_T_PRIVATE), first_of(v, CC_T_PRIVATE) >= 0),
        "hasPrivate() iff some item's directive is private -- whatever its argument (absent, quoted, unquoted, empty, unterminated)");
#endif
    ENS(IFF(HAS(CC_T_NO_STORE), first_of(v, CC_T_NO_STORE) >= 0), "hasNoStore() iff some item is no-store");
    ENS(IFF(HAS(CC_T_PUBLIC), first_of(v, CC_T_PUBLIC) >= 0), "hasPublic() iff some item is public");
    ENS(IFF(HAS(CC_T_MUST_REVALIDATE), first_of(v, CC_T_MUST_REVALIDATE) >= 0), "hasMustRevalidate() iff some item is must-revalidate");
    ENS(IFF(HAS(CC_T_PROXY_REVALIDATE), first_of(v, CC_T_PROXY_REVALIDATE) >= 0), "hasProxyRevalidate() iff some item is proxy-revalidate");
    ENS(IFF(HAS(CC_T_NO_TRANSFORM), first_of(v, CC_T_NO_TRANSFORM) >= 0), "hasNoTransform() iff some item is no-transform");
    ENS(IFF(HAS(CC_T_ONLY_IF_CACHED), first_of(v, CC_T_ONLY_IF_CACHED) >= 0), "hasOnlyIfCached() iff some item is only-if-cached");
    ENS(IFF(HAS(CC_T_IMMUTABLE), first_of(v, CC_T_IMMUTABLE) >= 0), "hasImmutable() iff some item is immutable");
    {
        const int f = first_ok_nocache(v);
        ENS(IFF(HAS(CC_T_NO_CACHE), f >= 0), "hasNoCache() iff some no-cache item has no argument or a well-formed quoted one");
        const long len = (f >= 0 && has_arg(v, f)) ? v->q_len[f] : 0;
        ENS(IFF(out[OUT_NC_WITH], f >= 0 && len > 0) && IFF(out[OUT_NC_WITHOUT], f >= 0 && len == 0),
            "hasNoCacheWithParameters() / WithoutParameters() tell whether the first accepted no-cache item listed field names");
        ENS(out[OUT_NC_LEN] == len && out[OUT_NC_TAG] == ((f >= 0 && has_arg(v, f)) ? f + 1 : 0) && out[OUT_NC_PTR_OK],
            "the no-cache field list is exactly the quoted value of the first accepted no-cache item (empty if none)");
    }
    {
        const int f = first_of(v, CC_T_PRIVATE);
        const int q = f >= 0 && quoted_ok(v, f);
        ENS(out[OUT_PRIV_LEN] == (q ? v->q_len[f] : 0) && out[OUT_PRIV_TAG] == (q ? f + 1 : 0) && out[OUT_PRIV_PTR_OK],
            "the private field list is exactly the quoted value of the first private item (empty if absent or broken)");
    }
    /* ---- C12 / C29: explicit lifetimes ---- */
    check_numeric(v, out, fresh, CC_T_MAX_AGE, OUT_GET_MAX_AGE, OUT_RAW_MAX_AGE);
    check_numeric(v, out, fresh, CC_T_S_MAXAGE, OUT_GET_S_MAXAGE, OUT_RAW_S_MAXAGE);
    check_numeric(v, out, fresh, CC_T_MIN_FRESH, OUT_GET_MIN_FRESH, OUT_RAW_MIN_FRESH);
    check_numeric(v, out, fresh, CC_T_STALE_IF_ERROR, OUT_GET_STALE_IF_ERROR, OUT_RAW_STALE_IF_ERROR);
    {
        const int f = first_of(v, CC_T_MAX_STALE);
        ENS(IFF(HAS(CC_T_MAX_STALE), f >= 0), "hasMaxStale() iff some item is max-stale");
        if (f >= 0) {
            const long want = num_valid(v, f) ? v->int_val[f] : CC_MAX_STALE_ANY;
            ENS(out[OUT_GET_MAX_STALE] == want && out[OUT_RAW_MAX_STALE] == want,
                "max-stale: the first item's non-negative int, or MAX_STALE_ANY when it has no usable value");
        } else {
            ENS(out[OUT_GET_MAX_STALE] == CC_UNTOUCHED && out[OUT_RAW_MAX_STALE] == fresh[OUT_RAW_MAX_STALE], "absent max-stale: unknown");
        }
    }
    /* ---- C29: exactly the directives present ---- */
    ENS(out[OUT_RAW_MASK] == spec_mask(v), "the directive mask has exactly the bits of the directives present (no stray bit, CC_OTHER never)");
    ENS(IFF(out[OUT_RET], spec_mask(v) != 0),
        "parse() returns true iff at least one known directive was accepted (HttpHeader::getCc() drops the object otherwise)");
    ENS(out[OUT_OTHER_LEN] == spec_other_len(v), "unknown directives are kept: `other` holds every unknown item, joined by \", \"");
    /* ---- every item was looked at ---- */
    ENS(out[OUT_G_DONE] && out[OUT_G_CALLS] == v->n + 1, "the walk reaches the end of the list: one tokeniser call per item plus the final one");
    ENS(out[OUT_G_SEEN] == (1L << v->n) - 1 && out[OUT_G_CLASSIFIED] == v->n, "every item is classified exactly once");
}
#endif

#ifndef CV_NATIVE
#ifdef T_PARSE
void h_parse(void)
{
    int n;
    char items[CC_KMAX * CC_L];
    int ilen[CC_KMAX], nlen[CC_KMAX], int_ok[CC_KMAX], int_val[CC_KMAX], q_ok[CC_KMAX];
    unsigned char type[CC_KMAX];
    long q_len[CC_KMAX];
    long out[OUT_COUNT], fresh[OUT_COUNT];

    __CPROVER_assume(n >= 0 && n <= K);
    for (int i = 0; i < CC_KMAX; ++i) {
        __CPROVER_assume(ilen[i] >= 1 && ilen[i] <= CC_L);          /* the tokeniser never yields an empty item */
        __CPROVER_assume(type[i] <= CC_T_OTHER);                     /* LookupTable: a table id or the default CC_OTHER */
        __CPROVER_assume(q_len[i] >= 0 && q_len[i] <= 65535);
        nlen[i] = spec_nlen(items + i * CC_L, ilen[i]);
    }
    struct view v = { n, items, ilen, nlen, int_ok, int_val, q_ok, type, q_len };

    cc_fresh(fresh);
    __CPROVER_assert(fresh[OUT_RAW_MASK] == 0 && fresh[OUT_RAW_MAX_AGE] == -1 && fresh[OUT_RAW_S_MAXAGE] == -1 && fresh[OUT_RAW_MAX_STALE] == -1 &&
                     fresh[OUT_RAW_MIN_FRESH] == -1 && fresh[OUT_RAW_STALE_IF_ERROR] == -1 && fresh[OUT_PRIV_LEN] == 0 && fresh[OUT_NC_LEN] == 0 &&
                     fresh[OUT_OTHER_LEN] == 0 && !fresh[OUT_NC_WITH] && !fresh[OUT_NC_WITHOUT],
                     "ensures: a freshly constructed HttpHdrCc has no directive, every value unknown (-1), empty field lists");

    const int r = cc_parse(n, items, ilen, nlen, type, int_ok, int_val, q_ok, q_len, out);
    __CPROVER_assert(r == out[OUT_RET], "ensures: wrapper returns parse()'s result");
    check_parse_post(&v, out, fresh);

#ifdef REACH
    {
        const int p = first_of(&v, CC_T_PRIVATE);
        __CPROVER_assert(!(p >= 0 && has_arg(&v, p) && !q_ok[p] && HAS(CC_T_PRIVATE)), "reach: private with a broken argument is remembered");
        __CPROVER_assert(!(p >= 0 && has_arg(&v, p) && q_ok[p] && out[OUT_PRIV_LEN] > 0), "reach: private with a quoted field list");
        __CPROVER_assert(!(p >= 0 && !has_arg(&v, p) && HAS(CC_T_PRIVATE)), "reach: bare private");
    }
    __CPROVER_assert(!(first_of(&v, CC_T_NO_CACHE) >= 0 && !HAS(CC_T_NO_CACHE)), "reach: no-cache with a broken argument ignored");
    __CPROVER_assert(!(first_of(&v, CC_T_NO_CACHE) == 0 && first_ok_nocache(&v) == 1 && out[OUT_NC_WITH]),
                     "reach: broken no-cache followed by an accepted no-cache=\"...\"");
    __CPROVER_assert(!(HAS(CC_T_MAX_AGE) && out[OUT_GET_MAX_AGE] == 3600), "reach: max-age=3600");
    __CPROVER_assert(!(first_of(&v, CC_T_MAX_AGE) == 0 && has_arg(&v, 0) && int_ok[0] && int_val[0] < 0 && !HAS(CC_T_MAX_AGE)), "reach: negative max-age rejected");
    __CPROVER_assert(!(n >= 2 && type[0] == CC_T_MAX_AGE && type[1] == CC_T_MAX_AGE && num_valid(&v, 0) && num_valid(&v, 1) && int_val[0] != int_val[1]),
                     "reach: duplicate max-age with a different value");
    __CPROVER_assert(!(n >= 2 && type[0] == CC_T_S_MAXAGE && type[1] == CC_T_S_MAXAGE && !num_valid(&v, 0) && num_valid(&v, 1) && HAS(CC_T_S_MAXAGE)),
                     "reach: invalid s-maxage followed by a valid one");
    __CPROVER_assert(!(HAS(CC_T_MAX_STALE) && out[OUT_GET_MAX_STALE] == CC_MAX_STALE_ANY && !has_arg(&v, first_of(&v, CC_T_MAX_STALE))), "reach: bare max-stale");
    __CPROVER_assert(!(n == K && r), "reach: K items");
    __CPROVER_assert(!(n == 0), "reach: empty list");
    __CPROVER_assert(!(n > 0 && !r), "reach: only unknown / rejected directives: parse() false");
    __CPROVER_assert(!(n >= 2 && type[0] == CC_T_OTHER && type[1] == CC_T_OTHER), "reach: two unknown directives");
    __CPROVER_assert(!(n >= 1 && nlen[0] == 0), "reach: item starting with '='");
    __CPROVER_assert(!(n >= 1 && nlen[0] == ilen[0] - 1 && ilen[0] == CC_L), "reach: '=' is the last byte of a full-width item (empty argument)");
#endif
}
#endif /* T_PARSE */
#endif /* !CV_NATIVE */

/* ================================================================================================================
 * packInto (C29, "Packing the parsed directives ..."): for an ARBITRARY object state the sequence of appendf() calls is exactly
 *   for each known directive t = public .. immutable, in enum order, whose mask bit is set:
 *        its name (preceded by ", " unless it is the first), then
 *        ="<list>"  for private / no-cache with a non-empty field list,
 *        =<value>   for max-age, s-maxage, min-fresh, stale-if-error, and for max-stale unless its value is MAX_STALE_ANY;
 *   then the unknown directives (`other`), if any, preceded by ", " if something was printed before;
 *   nothing at all when the mask is empty (the code's documented shortcut; parse() returns false for such an object and
 *   HttpHeader::getCc() drops it).
 * ================================================================================================================ */
enum { ST_MASK, ST_MAX_AGE, ST_S_MAXAGE, ST_MAX_STALE, ST_STALE_IF_ERROR, ST_MIN_FRESH, ST_PRIV_LEN, ST_NC_LEN, ST_OTHER_LEN, ST_COUNT };

struct evlog { long kind[CC_EVMAX], sep[CC_EVMAX], a[CC_EVMAX], which[CC_EVMAX]; int n; };

static void ev_put(struct evlog *e, long kind, long sep, long a, long which)
{
    e->kind[e->n] = kind; e->sep[e->n] = sep; e->a[e->n] = a; e->which[e->n] = which; e->n++;
}
static void spec_pack(const long *st, struct evlog *e)
{
    int count = 0;
    e->n = 0;
    for (int i = 0; i < CC_EVMAX; ++i) { e->kind[i] = 0; e->sep[i] = 0; e->a[i] = 0; e->which[i] = 0; }
    if ((int)st[ST_MASK] == 0)
        return;
    for (int t = 0; t < CC_T_OTHER; ++t) {
        if (!(st[ST_MASK] & (1L << t)))
            continue;
        ev_put(e, EV_NAME, count > 0, t, 0);
        if (t == CC_T_PRIVATE && st[ST_PRIV_LEN] > 0) ev_put(e, EV_QUOTED, 0, st[ST_PRIV_LEN], 1);
        if (t == CC_T_NO_CACHE && st[ST_NC_LEN] > 0) ev_put(e, EV_QUOTED, 0, st[ST_NC_LEN], 2);
        if (t == CC_T_MAX_AGE) ev_put(e, EV_INT, 0, st[ST_MAX_AGE], 0);
        if (t == CC_T_S_MAXAGE) ev_put(e, EV_INT, 0, st[ST_S_MAXAGE], 0);
        if (t == CC_T_MAX_STALE && st[ST_MAX_STALE] != CC_MAX_STALE_ANY) ev_put(e, EV_INT, 0, st[ST_MAX_STALE], 0);
        if (t == CC_T_MIN_FRESH) ev_put(e, EV_INT, 0, st[ST_MIN_FRESH], 0);
        if (t == CC_T_STALE_IF_ERROR) ev_put(e, EV_INT, 0, st[ST_STALE_IF_ERROR], 0);
        ++count;
    }
    if (st[ST_OTHER_LEN] != 0)
        ev_put(e, EV_OTHER, count > 0, st[ST_OTHER_LEN], 3);
}

#ifndef CV_NATIVE
#ifdef T_PACK
extern int cc_pack(const long *st, long *ev_kind, long *ev_sep, long *ev_a, long *ev_which);
size_t g;       /* ghost index (nondet: listed in the target's "ghosts") */

void h_pack(void)
{
    long st[ST_COUNT];
    struct evlog got, want;
    for (int i = 0; i <= ST_MIN_FRESH; ++i)
        __CPROVER_assume(st[i] >= -2147483647L - 1 && st[i] <= 2147483647L);     /* the int32_t members: full domain */
    __CPROVER_assume(st[ST_PRIV_LEN] >= 0 && st[ST_PRIV_LEN] <= 65535 && st[ST_NC_LEN] >= 0 && st[ST_NC_LEN] <= 65535 &&
                     st[ST_OTHER_LEN] >= 0 && st[ST_OTHER_LEN] <= 65535);
    got.n = cc_pack(st, got.kind, got.sep, got.a, got.which);
    spec_pack(st, &want);
#ifdef TWIN_PACK
    __CPROVER_assert(got.n != want.n, "ensures: TWIN (negated) number of printed pieces");
#else
    __CPROVER_assert(got.n == want.n, "ensures: packInto prints one name per set known directive, a value exactly for the valued ones, then the unknown ones: number of pieces");
#endif
    __CPROVER_assume(g < CC_EVMAX);
    __CPROVER_assert(got.kind[g] == want.kind[g] && got.sep[g] == want.sep[g] && got.a[g] == want.a[g] && got.which[g] == want.which[g],
                     "ensures: packInto: every printed piece (name in enum order / separator / =value / =\"list\" / unknown directives) is the expected one");
#ifdef REACH
    __CPROVER_assert(!(got.n == 22), "reach: every directive set, all values printed, unknown directives too (22 pieces)");
    __CPROVER_assert(!(got.n == 0 && st[ST_OTHER_LEN] > 0), "reach: empty mask prints nothing");
    __CPROVER_assert(!(got.n == 1 && got.kind[0] == EV_OTHER), "reach: only stray mask bits: unknown directives alone");
    __CPROVER_assert(!(got.n == 1 && got.kind[0] == EV_NAME && got.a[0] == CC_T_MAX_STALE), "reach: max-stale without a value");
    __CPROVER_assert(!(got.n == 2 && got.kind[1] == EV_QUOTED && got.which[1] == 1), "reach: private=\"list\"");
#endif
}
#endif /* T_PACK */
#endif
