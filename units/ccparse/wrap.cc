// Wrapper TU for the ccparse unit (C11 / C12 / C29), tier T3:
//   REAL  class HttpHdrCc + enum HttpHdrCcType      (run-time copy of src/HttpHdrCc.h, 2 rewrites, see unit.json)
//   REAL  HttpHdrCc::setValue, HttpHdrCc::parse     (function slices of src/HttpHdrCc.cc; `auto` spelled out by gen.py via g++ decltype)
//   REAL  operator++(HttpHdrCcType&), HttpHdrCc::packInto   (function slices, target pack only, -DCV_PACK)
//   ASSUMED models (trusted, listed in unit.json): strListGetItem, ccTypeByName, httpHeaderParseInt,
//         httpHeaderParseQuotedString, String/SBuf (stubs/SquidString.h), memchr, Packable::appendf, ccNameByType.
#include "SquidString.h"      // stub; first, so that under CV_NATIVE the system headers are read before the `private` trick
#include <iosfwd>
#include "cc_io.h"
#define private public        // the wrapper reads the private data members back (mask, values, private_, no_cache)
#include "HttpHdrCc.h"        // REAL class declaration
#undef private
#define debugs(...) ((void)0)

#define CC_SAME(x) static_assert((int)HttpHdrCcType::CC_##x == CC_T_##x, "HttpHdrCcType::CC_" #x)
CC_SAME(PUBLIC); CC_SAME(PRIVATE); CC_SAME(NO_CACHE); CC_SAME(NO_STORE); CC_SAME(NO_TRANSFORM); CC_SAME(MUST_REVALIDATE);
CC_SAME(PROXY_REVALIDATE); CC_SAME(MAX_AGE); CC_SAME(S_MAXAGE); CC_SAME(MAX_STALE); CC_SAME(MIN_FRESH); CC_SAME(ONLY_IF_CACHED);
CC_SAME(STALE_IF_ERROR); CC_SAME(IMMUTABLE); CC_SAME(OTHER); CC_SAME(ENUM_END);

#ifndef CV_NATIVE
// memchr: trusted model (ISO C semantics), at most CC_L iterations here
extern "C" void *memchr(const void *s, int c, size_t n)
{
    const unsigned char *p = (const unsigned char *)s;
    for (size_t i = 0; i < n; ++i)
        if (p[i] == (unsigned char)c)
            return (void *)(p + i);
    return nullptr;
}
#endif

// ---------------------------------------------------------------------------------------------------------------
// state of the assumed models: the pre-decided item list (see cc_io.h) and the ghosts
// ---------------------------------------------------------------------------------------------------------------
static int g_n;
static const char *g_items;
static const int *g_ilen, *g_nlen, *g_int_ok, *g_int_val, *g_q_ok;
static const unsigned char *g_type;
static const long *g_q_len;
static const String *g_list;
static int g_cur;                   // index of the item most recently yielded by strListGetItem (-1: none yet)
static int g_done, g_calls, g_seen, g_classified;
static const char cc_posbuf[CC_KMAX + 2] = {0};     // position cookies: *pos == cc_posbuf + k  <=>  k items have been yielded

// ASSUMED contract of strListGetItem(&str, ',', &item, &ilen, &pos) (src/StrList.cc), as far as parse() depends on it: successive
// calls yield the n non-empty items of the list in order, the iteration state lives in *pos (nullptr = start), the call after
// the last item returns 0.  Ghosts: g_calls counts every call, g_done records that the end was reported to the caller.
int strListGetItem(const String *str, char del, const char **item, int *ilen, const char **pos)
{
    CV_LEMMA(item != nullptr && ilen != nullptr && pos != nullptr, "model: strListGetItem(): null out-parameter");
    CV_LEMMA(str == g_list && del == ',', "ensures: the tokeniser runs over the field value handed to parse(), with ',' as delimiter");
    ++g_calls;
    CV_LEMMA(g_calls <= CC_KMAX + 1, "model: more strListGetItem() calls than the model provides for");
    int idx = 0;
    if (*pos) {
        CV_LEMMA(*pos >= cc_posbuf && *pos <= cc_posbuf + CC_KMAX, "model: strListGetItem() position cookie was not produced by the model");
        idx = (int)(*pos - cc_posbuf);
    }
    g_cur = idx;                    // == g_n after the last item: the other models refuse to answer then
    if (idx >= g_n) {
        g_done = 1;
        *pos = cc_posbuf + g_n;
        return 0;
    }
    *item = g_items + idx * CC_L;
    *ilen = g_ilen[idx];
    *pos = cc_posbuf + idx + 1;
    return 1;
}

// ASSUMED classifier (the real one is a LookupTable<HttpHdrCcType> look-up with default CC_OTHER): answers with the pre-decided
// type of the current item; checks that it is asked about exactly the directive-name bytes of that item.
static HttpHdrCcType ccTypeByName(const SBuf &name)
{
    ++g_classified;
    CV_LEMMA(g_cur >= 0 && g_cur < g_n, "model: ccTypeByName() called outside an iteration");
    CV_LEMMA(name.p == g_items + g_cur * CC_L && name.n_ == (size_t)g_nlen[g_cur],
             "ensures: the classifier is asked about exactly the directive name of the current item (its bytes before the first '=')");
    g_seen |= 1 << g_cur;
    return (HttpHdrCcType)g_type[g_cur];
}

// ASSUMED httpHeaderParseInt (verified for real under C27, unit int64parse): arbitrary verdict; on success *value is the
// arbitrary int decided for the item (negative included), on failure *value is arbitrary too (the real one leaves it alone or stores 0).
int httpHeaderParseInt(const char *start, int *value)
{
    CV_LEMMA(value != nullptr, "model: httpHeaderParseInt(): assert(value)");
    CV_LEMMA(g_cur >= 0 && g_cur < g_n, "model: httpHeaderParseInt() called outside an iteration");
    CV_LEMMA(g_nlen[g_cur] < g_ilen[g_cur] && start == g_items + g_cur * CC_L + g_nlen[g_cur] + 1,
             "ensures: the number parser is handed the argument of the current item (the byte after its first '=')");
    *value = g_int_val[g_cur];
    return g_int_ok[g_cur] ? 1 : 0;
}

// ASSUMED httpHeaderParseQuotedString: arbitrary verdict; cleans *val first (as the real one), on success *val holds a value of
// the pre-decided length, tagged with the item it came from.
int httpHeaderParseQuotedString(const char *start, const int len, String *val)
{
    CV_LEMMA(val != nullptr, "model: httpHeaderParseQuotedString(): null String");
    CV_LEMMA(g_cur >= 0 && g_cur < g_n, "model: httpHeaderParseQuotedString() called outside an iteration");
    CV_LEMMA(g_nlen[g_cur] < g_ilen[g_cur] && start == g_items + g_cur * CC_L + g_nlen[g_cur] + 1 &&
             len == g_ilen[g_cur] - g_nlen[g_cur] - 1,
             "ensures: the quoted-string parser is handed the whole argument of the current item (after the first '=' up to the item's end)");
    val->clean();
    if (!g_q_ok[g_cur])
        return 0;
    val->len_ = (String::size_type)g_q_len[g_cur];
    val->tag_ = g_cur + 1;
    return 1;
}

#include "ccparse.inc"        // REAL text (resolved copy written by gen.py): HttpHdrCc::setValue, HttpHdrCc::parse
#ifdef CV_PACK
#include "pack_env.h"         // Packable / ccNameByType models for the packInto slice
#include "ccpack.inc"         // REAL text: operator++(HttpHdrCcType&), HttpHdrCc::packInto
#endif

// ---------------------------------------------------------------------------------------------------------------
// extern "C" entry points
// ---------------------------------------------------------------------------------------------------------------
static void cvReadBack(const HttpHdrCc &cc, long *out)
{
    out[OUT_HAS0 + CC_T_PUBLIC] = cc.hasPublic();
    out[OUT_HAS0 + CC_T_NO_STORE] = cc.hasNoStore();
    out[OUT_HAS0 + CC_T_NO_TRANSFORM] = cc.hasNoTransform();
    out[OUT_HAS0 + CC_T_MUST_REVALIDATE] = cc.hasMustRevalidate();
    out[OUT_HAS0 + CC_T_PROXY_REVALIDATE] = cc.hasProxyRevalidate();
    out[OUT_HAS0 + CC_T_ONLY_IF_CACHED] = cc.hasOnlyIfCached();
    out[OUT_HAS0 + CC_T_IMMUTABLE] = cc.hasImmutable();
    {
        const String *p = nullptr;
        const bool plain = cc.hasPrivate();                 // the call HttpStateData::reusableReply() makes
        const bool withOut = cc.hasPrivate(&p);
        out[OUT_HAS0 + CC_T_PRIVATE] = plain;
        out[OUT_PRIV_PTR_OK] = (plain == withOut) && (withOut ? p == &cc.private_ : p == nullptr);
    }
    {
        const String *p = nullptr;
        const bool plain = cc.hasNoCache();
        const bool withOut = cc.hasNoCache(&p);
        out[OUT_HAS0 + CC_T_NO_CACHE] = plain;
        out[OUT_NC_PTR_OK] = (plain == withOut) && (withOut ? p == &cc.no_cache : p == nullptr);
        out[OUT_NC_WITH] = cc.hasNoCacheWithParameters();
        out[OUT_NC_WITHOUT] = cc.hasNoCacheWithoutParameters();
    }
    int32_t v;
    v = CC_UNTOUCHED; out[OUT_HAS0 + CC_T_MAX_AGE] = cc.hasMaxAge(&v) && cc.hasMaxAge(); out[OUT_GET_MAX_AGE] = v;
    v = CC_UNTOUCHED; out[OUT_HAS0 + CC_T_S_MAXAGE] = cc.hasSMaxAge(&v) && cc.hasSMaxAge(); out[OUT_GET_S_MAXAGE] = v;
    v = CC_UNTOUCHED; out[OUT_HAS0 + CC_T_MAX_STALE] = cc.hasMaxStale(&v) && cc.hasMaxStale(); out[OUT_GET_MAX_STALE] = v;
    v = CC_UNTOUCHED; out[OUT_HAS0 + CC_T_MIN_FRESH] = cc.hasMinFresh(&v) && cc.hasMinFresh(); out[OUT_GET_MIN_FRESH] = v;
    v = CC_UNTOUCHED; out[OUT_HAS0 + CC_T_STALE_IF_ERROR] = cc.hasStaleIfError(&v) && cc.hasStaleIfError(); out[OUT_GET_STALE_IF_ERROR] = v;
    out[OUT_RAW_MASK] = cc.mask;
    out[OUT_RAW_MAX_AGE] = cc.max_age;
    out[OUT_RAW_S_MAXAGE] = cc.s_maxage;
    out[OUT_RAW_MAX_STALE] = cc.max_stale;
    out[OUT_RAW_MIN_FRESH] = cc.min_fresh;
    out[OUT_RAW_STALE_IF_ERROR] = cc.stale_if_error;
    out[OUT_PRIV_LEN] = (long)cc.private_.len_;
    out[OUT_PRIV_TAG] = cc.private_.tag_;
    out[OUT_NC_LEN] = (long)cc.no_cache.len_;
    out[OUT_NC_TAG] = cc.no_cache.tag_;
    out[OUT_OTHER_LEN] = (long)cc.other.len_;
}

extern "C" {

// Runs the REAL parse() on a freshly constructed HttpHdrCc over the item list described in cc_io.h; out[OUT_COUNT] receives the
// object's state afterwards (through the real accessors) and the models' ghosts.  Returns parse()'s result.
int cc_parse(int n, const char *items, const int *ilen, const int *nlen, const unsigned char *type,
             const int *int_ok, const int *int_val, const int *q_ok, const long *q_len, long *out)
{
    g_n = n; g_items = items; g_ilen = ilen; g_nlen = nlen; g_type = type;
    g_int_ok = int_ok; g_int_val = int_val; g_q_ok = q_ok; g_q_len = q_len;
    g_cur = -1; g_done = 0; g_calls = 0; g_seen = 0; g_classified = 0;
    HttpHdrCc cc;                   // the real constructor
    String list;                    // the field value: opaque to parse(), it only hands it to the tokeniser
    g_list = &list;
    const bool r = cc.parse(list);
    out[OUT_RET] = r;
    cvReadBack(cc, out);
    out[OUT_G_DONE] = g_done;
    out[OUT_G_CALLS] = g_calls;
    out[OUT_G_SEEN] = g_seen;
    out[OUT_G_CLASSIFIED] = g_classified;
    return r;
}

// state of a freshly constructed object (no parse): what "absent" looks like
void cc_fresh(long *out)
{
    HttpHdrCc cc;
    out[OUT_RET] = 0;
    cvReadBack(cc, out);
    out[OUT_G_DONE] = out[OUT_G_CALLS] = out[OUT_G_SEEN] = out[OUT_G_CLASSIFIED] = 0;
}

#ifdef CV_PACK
// Runs the REAL packInto() on an object in the given state; st[] = mask, max_age, s_maxage, max_stale, stale_if_error, min_fresh,
// private_.size(), no_cache.size(), other.size().  The recorded appendf() events are copied out: kind, separator flag, value/length,
// which String a buffer argument belongs to (1 private_, 2 no_cache, 3 other, 0 none/unknown).  Returns the number of events.
int cc_pack(const long *st, long *ev_kind, long *ev_sep, long *ev_a, long *ev_which)
{
    HttpHdrCc cc;
    cc.mask = (int32_t)st[0]; cc.max_age = (int32_t)st[1]; cc.s_maxage = (int32_t)st[2]; cc.max_stale = (int32_t)st[3];
    cc.stale_if_error = (int32_t)st[4]; cc.min_fresh = (int32_t)st[5];
    cc.private_.len_ = (String::size_type)st[6]; cc.no_cache.len_ = (String::size_type)st[7]; cc.other.len_ = (String::size_type)st[8];
    g_ev_n = 0;
    Packable p;
    cc.packInto(&p);
    for (int i = 0; i < CC_EVMAX; ++i) {        // (no `c ? x : y` here: cbmc's C++ front end mis-types mixed-width arms)
        ev_kind[i] = 0; ev_sep[i] = 0; ev_a[i] = 0; ev_which[i] = 0;
        if (i < g_ev_n) {
            ev_kind[i] = g_ev_kind[i]; ev_sep[i] = g_ev_sep[i]; ev_a[i] = g_ev_a[i];
            if (g_ev_p[i]) {
                if (g_ev_p[i] == cc.private_.rawBuf()) ev_which[i] = 1;
                else if (g_ev_p[i] == cc.no_cache.rawBuf()) ev_which[i] = 2;
                else if (g_ev_p[i] == cc.other.rawBuf()) ev_which[i] = 3;
            }
        }
    }
    return g_ev_n;
}
#endif

}
