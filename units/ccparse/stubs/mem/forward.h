// stub for src/mem/forward.h: HttpHdrCc.h needs only MEMPROXY_CLASS (pooled operator new/delete; the unit never allocates one)
#ifndef CV_MEM_FORWARD_H
#define CV_MEM_FORWARD_H
#define MEMPROXY_CLASS(C) typedef int cv_memproxy_class_dropped
#endif
