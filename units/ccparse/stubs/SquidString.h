// Stub for src/SquidString.h (TRUSTED model, listed in unit.json): an abstract String = (length, ghost content tag).
// The WHOLE append() overload family of the real class is offered (switching overload is a one-token edit), plus
// size()/psize()/clean()/rawBuf()/termedBuf() -- everything HttpHdrCc.h and the sliced bodies can reach.
//   len_  : number of bytes held (what size() reports), exact for every append overload
//   tag_  : ghost: 0 = empty or built from raw bytes; k+1 = holds the quoted-string value that the ASSUMED
//           httpHeaderParseQuotedString() produced for list item k (set by that model only, propagated by append(String))
#ifndef CV_SQUIDSTRING_H
#define CV_SQUIDSTRING_H
#ifdef CV_NATIVE
#include <cstddef>
#include <cstdint>
#include <cstring>
#include <cassert>
#else
typedef unsigned long size_t;
typedef int int32_t;
#define assert(c) __CPROVER_assert((c), "assert(" #c ")")
#endif
#ifndef CV_LEMMA
#ifdef CV_NATIVE
#define CV_LEMMA(c, txt) do { if (!(c)) { cv_native_fail(txt); } } while (0)
extern "C" void cv_native_fail(const char *txt);
#else
#define CV_LEMMA(c, txt) __CPROVER_assert((c), txt)
#endif
#endif

#define SQUIDSTRINGPH "%.*s"
#define SQUIDSTRINGPRINT(s) (s).psize(),(s).rawBuf()

class SBuf
{
public:
    SBuf() : p(nullptr), n_(0) {}
    SBuf(const char *s, size_t n) : p(s), n_(n) {}     // the only constructor the slices use: SBuf(item, nlen)
    const char *p;
    size_t n_;
};

class String
{
public:
    typedef size_t size_type;
    String() : len_(0), tag_(0) {}
    size_type size() const { return len_; }
    int psize() const { CV_LEMMA(len_ < 0x7fffffffUL, "String::psize(): Must(size() < INT_MAX)"); return (int)len_; }
    char const *rawBuf() const { return (const char *)this; }       // opaque, non-null handle: only handed to appendf models, never read
    char const *termedBuf() const { return (const char *)this; }
    void clean() { len_ = 0; tag_ = 0; }
    void append(char const *buf, int len) {
        CV_LEMMA(len >= 0, "String::append(buf,len): len >= 0");
        CV_LEMMA(buf != nullptr || len == 0, "String::append(buf,len): buf != nullptr");
        len_ += (size_type)len;
    }
    void append(char const *buf) {
        CV_LEMMA(buf != nullptr, "String::append(str): str != nullptr");
        size_type n = 0;
        while (buf[n]) ++n;                 // only called with short literals (", ", ","); unwound, with unwinding assertion
        len_ += n;
    }
    void append(char const) { len_ += 1; }
    void append(String const &s) { len_ += s.len_; if (s.tag_) tag_ = s.tag_; }
    void append(const SBuf &b) { len_ += b.n_; }
    size_type len_;
    long tag_;
};
#endif
