// stub for src/dlink.h: HttpHdrCc.h includes it but uses nothing from it
