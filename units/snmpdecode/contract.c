/* Property C39, SNMP side, one layer above units/asn1: the callers of the BER parsers on the datagram path
 *
 *     snmpHandleUdp -> snmpDecodePacket -> snmp_parse (lib/snmplib/snmp_api.c) -> snmp_msg_Decode (snmp_msg.c)
 *                   -> snmp_pdu_decode (snmp_pdu.c) + snmp_var_DecodeVarBind (snmp_vars.c) -> asn_parse_* (asn1.c)
 *
 * Harness mode (the varbind loop allocates, one allocation has a symbolic size; dfcc does not finish on that).
 * The six asn_parse_* functions are CONTRACT MODELS (below): each model asserts the precondition of the contract verified
 * in units/asn1 ("callee precondition: ...") and returns an arbitrary result allowed by that contract's postconditions.
 * The spec functions sp_* and the constants HEAD/TAIL/NEED are the very text of units/asn1/contract.c (included, not
 * copied).  The real callers are checked for every datagram length V <= DGMAX and all contents, with CALLER_SLACK
 * readable bytes behind the V valid ones.  The real asn1.c is NOT part of this unit.
 */
#include "../asn1/contract.c"       /* sp_len_ok, sp_hdr, sp_tlv_ok, sp_header_ok, sp_uint_ok, NEED, HEAD, TAIL, TAIL_INT, VMAX, SMAX, OMAX */
#include <stdlib.h>
#include <netinet/in.h>
#include "snmp_vars.h"
#include "snmp_pdu.h"
#include "snmp_session.h"
#include "snmp_api.h"

#ifndef DGMAX
#define DGMAX 4095          /* largest datagram length considered = what snmpHandleUdp can receive (SNMP_REQUEST_SIZE - 1) */
#endif
#ifndef CALLER_SLACK
#define CALLER_SLACK 6      /* readable bytes behind the V valid ones; the parsers need 6 (units/asn1), snmpHandleUdp gives 1 (F5) */
#endif

/* ============================ contract models of the BER parsers ============================
 * model(f) = { assert requires(f); havoc assigns(f); return any result with ensures(f) }.
 * requires: `is_fresh(p, n)` of the verified contract becomes `r_ok/w_ok(p, n)` plus pairwise DISJOINT byte ranges
 *   (the contract was verified for arguments in separate objects; snmp_var_DecodeVarBind passes &Var->type and
 *   &Var->val_len, two disjoint fields of one object -- listed under "trusted").
 * ensures: see the comment before the models. */
int nondet_int(void); unsigned char nondet_uchar(void); long nondet_long(void); _Bool nondet_bool(void);
/* The datagram lives at the start of a fixed array of DGMAX + CALLER_SLACK bytes; the bytes the caller of the library may
 * read are [cv_buf, cv_end) with cv_end = cv_buf + V + CALLER_SLACK (two ghost pointers set by the harness).  `is_fresh(data, n)`
 * of the verified contract becomes CV_ROK(data, n): data lies in that window and n bytes from data stay inside it.
 * (A malloc'ed buffer of symbolic size V + CALLER_SLACK states the same thing but makes the SAT problem intractable:
 * > 10 min for one variable binding, against 30 s.) */
u_char *cv_buf, *cv_end;
#define CV_ROK(p, n) (__CPROVER_same_object(p, cv_buf) && (p) >= cv_buf && (long)(n) <= cv_end - (p))
#define PRE(c, txt) __CPROVER_assert(c, "callee precondition: " txt)
static int cv_disjoint(const void *a, size_t na, const void *b, size_t nb)
{
    return !__CPROVER_same_object(a, b) || (const char *)a + na <= (const char *)b || (const char *)b + nb <= (const char *)a;
}

/* Results: what the verified contract's ensures clauses allow, projected on what the callers can observe WITHOUT reading the
 * datagram (header size in [2, 6], content length bounded by the window and by the capacity, *type arbitrary): every result the
 * verified contract allows is allowed here (weaker postcondition = larger model), and the datagram contents never enter the
 * SAT problem.  (Models that compute sp_hdr/sp_len_val from the symbolic bytes, i.e. the exact clauses, are sound as well but
 * did not finish within 400 s for three variable bindings.) */
u_char *asn_parse_length(u_char *data, u_int *length)
{
    PRE(CV_ROK(data, LEN_NEED), "asn_parse_length: 5 readable bytes at data");
    PRE(__CPROVER_w_ok(length, sizeof(u_int)), "asn_parse_length: length writable");
    snmp_errno = nondet_int();
    *length = (u_int)nondet_int();
    if (nondet_bool()) return NULL;
    long k = nondet_long();
    __CPROVER_assume(1 <= k && k <= 5);
    return data + k;
}

u_char *asn_parse_header(u_char *data, int *datalength, u_char *type)
{
    PRE(__CPROVER_rw_ok(datalength, sizeof(int)), "asn_parse_header: datalength valid");
    int V = *datalength;
    PRE(0 <= V && V <= VMAX, "asn_parse_header: 0 <= *datalength <= VMAX");
    PRE(CV_ROK(data, NEED(V, TAIL)), "asn_parse_header: max(*datalength, 6) readable bytes at data");
    PRE(__CPROVER_w_ok(type, 1), "asn_parse_header: type writable");
    PRE(cv_disjoint(data, NEED(V, TAIL), datalength, sizeof(int)) && cv_disjoint(data, NEED(V, TAIL), type, 1) &&
        cv_disjoint(datalength, sizeof(int), type, 1), "asn_parse_header: arguments disjoint");
    snmp_errno = nondet_int();
    *type = nondet_uchar();
    if (nondet_bool()) return NULL;                     /* *datalength unchanged */
    long h = nondet_long(); int len = nondet_int();     /* RET == data + sp_hdr(data), *datalength == sp_len_val(data + 1), sp_header_ok */
    __CPROVER_assume(2 <= h && h <= 6 && 0 <= len && len <= (2 << 18) && h + (long)len <= (long)V);
    *datalength = len;
    return data + h;
}

u_char *asn_parse_int(u_char *data, int *datalength, u_char *type, int *intp, int intsize)
{
    PRE(__CPROVER_rw_ok(datalength, sizeof(int)), "asn_parse_int: datalength valid");
    int V = *datalength;
    PRE(0 <= V && V <= VMAX, "asn_parse_int: 0 <= *datalength <= VMAX");
    PRE(CV_ROK(data, NEED(V, TAIL_INT)), "asn_parse_int: max(*datalength + 1, 6) readable bytes at data");
    PRE(__CPROVER_w_ok(type, 1) && __CPROVER_w_ok(intp, sizeof(int)), "asn_parse_int: type, intp writable");
    PRE(cv_disjoint(data, NEED(V, TAIL_INT), datalength, sizeof(int)) && cv_disjoint(data, NEED(V, TAIL_INT), type, 1) &&
        cv_disjoint(data, NEED(V, TAIL_INT), intp, sizeof(int)) && cv_disjoint(datalength, sizeof(int), type, 1) &&
        cv_disjoint(datalength, sizeof(int), intp, sizeof(int)) && cv_disjoint(type, 1, intp, sizeof(int)), "asn_parse_int: arguments disjoint");
    snmp_errno = nondet_int();
    *type = nondet_uchar();
    *intp = nondet_int();
    if (intsize != (int)sizeof(int) || nondet_bool()) return NULL;             /* *datalength unchanged */
    long h = nondet_long(), len = nondet_long();        /* sp_tlv_ok(data, V, 4): header 2..6 octets, at most 4 content octets, inside V */
    __CPROVER_assume(2 <= h && h <= 6 && 0 <= len && len <= 4 && h + len <= (long)V);
    *datalength = V - (int)(h + len);
    return data + (h + len);
}

u_char *asn_parse_unsigned_int(u_char *data, int *datalength, u_char *type, u_int *intp, int intsize)
{
    PRE(__CPROVER_rw_ok(datalength, sizeof(int)), "asn_parse_unsigned_int: datalength valid");
    int V = *datalength;
    PRE(0 <= V && V <= VMAX, "asn_parse_unsigned_int: 0 <= *datalength <= VMAX");
    PRE(CV_ROK(data, NEED(V, TAIL_INT)), "asn_parse_unsigned_int: max(*datalength + 1, 6) readable bytes at data");
    PRE(__CPROVER_w_ok(type, 1) && __CPROVER_w_ok(intp, sizeof(u_int)), "asn_parse_unsigned_int: type, intp writable");
    PRE(cv_disjoint(data, NEED(V, TAIL_INT), datalength, sizeof(int)) && cv_disjoint(data, NEED(V, TAIL_INT), type, 1) &&
        cv_disjoint(data, NEED(V, TAIL_INT), intp, sizeof(int)) && cv_disjoint(datalength, sizeof(int), type, 1) &&
        cv_disjoint(datalength, sizeof(int), intp, sizeof(int)) && cv_disjoint(type, 1, intp, sizeof(int)), "asn_parse_unsigned_int: arguments disjoint");
    snmp_errno = nondet_int();
    *type = nondet_uchar();
    *intp = (u_int)nondet_int();
    if (intsize != (int)sizeof(int) || nondet_bool()) return NULL;             /* *datalength unchanged */
    long h = nondet_long(), len = nondet_long();        /* sp_uint_ok: at most 5 content octets */
    __CPROVER_assume(2 <= h && h <= 6 && 0 <= len && len <= 5 && h + len <= (long)V);
    *datalength = V - (int)(h + len);
    return data + (h + len);
}

u_char *asn_parse_string(u_char *data, int *datalength, u_char *type, u_char *string, int *strlength)
{
    PRE(__CPROVER_rw_ok(datalength, sizeof(int)) && __CPROVER_rw_ok(strlength, sizeof(int)), "asn_parse_string: datalength, strlength valid");
    int V = *datalength, cap = *strlength;
    PRE(0 <= V && V <= VMAX, "asn_parse_string: 0 <= *datalength <= VMAX");
    PRE(0 <= cap && cap <= SMAX, "asn_parse_string: 0 <= *strlength <= SMAX");
    PRE(CV_ROK(data, NEED(V, TAIL)), "asn_parse_string: max(*datalength, 6) readable bytes at data");
    PRE(__CPROVER_w_ok(type, 1), "asn_parse_string: type writable");
    PRE(__CPROVER_w_ok(string, cap), "asn_parse_string: *strlength writable bytes at string");
    PRE(cv_disjoint(data, NEED(V, TAIL), datalength, sizeof(int)) && cv_disjoint(data, NEED(V, TAIL), type, 1) &&
        cv_disjoint(data, NEED(V, TAIL), string, cap) && cv_disjoint(data, NEED(V, TAIL), strlength, sizeof(int)) &&
        cv_disjoint(datalength, sizeof(int), type, 1) && cv_disjoint(datalength, sizeof(int), string, cap) &&
        cv_disjoint(datalength, sizeof(int), strlength, sizeof(int)) && cv_disjoint(type, 1, string, cap) &&
        cv_disjoint(type, 1, strlength, sizeof(int)) && cv_disjoint(string, cap, strlength, sizeof(int)), "asn_parse_string: arguments disjoint");
    snmp_errno = nondet_int();
    *type = nondet_uchar();
    __CPROVER_havoc_object(string);                      /* assigns: __CPROVER_object_whole(string) */
    if (nondet_bool()) return NULL;                      /* *datalength, *strlength unchanged */
    long h = nondet_long(), len = nondet_long();         /* sp_tlv_ok(data, V, cap) */
    __CPROVER_assume(2 <= h && h <= 6 && 0 <= len && len <= (long)cap && h + len <= (long)V);
    *strlength = (int)len;
    *datalength = V - (int)(h + len);
    return data + (h + len);
}

u_char *asn_parse_objid(u_char *data, int *datalength, u_char *type, oid *objid, int *objidlength)
{
    PRE(__CPROVER_rw_ok(datalength, sizeof(int)) && __CPROVER_rw_ok(objidlength, sizeof(int)), "asn_parse_objid: datalength, objidlength valid");
    int V = *datalength, cap = *objidlength;
    PRE(0 <= V && V <= VMAX, "asn_parse_objid: 0 <= *datalength <= VMAX");
    PRE(2 <= cap && cap <= OMAX, "asn_parse_objid: 2 <= *objidlength <= OMAX");
    PRE(CV_ROK(data, NEED(V, TAIL)), "asn_parse_objid: max(*datalength, 6) readable bytes at data");
    PRE(__CPROVER_w_ok(type, 1), "asn_parse_objid: type writable");
    PRE(__CPROVER_w_ok(objid, (size_t)cap * sizeof(oid)), "asn_parse_objid: *objidlength writable sub-identifiers at objid");
    PRE(cv_disjoint(data, NEED(V, TAIL), datalength, sizeof(int)) && cv_disjoint(data, NEED(V, TAIL), type, 1) &&
        cv_disjoint(data, NEED(V, TAIL), objid, (size_t)cap * sizeof(oid)) && cv_disjoint(data, NEED(V, TAIL), objidlength, sizeof(int)) &&
        cv_disjoint(datalength, sizeof(int), type, 1) && cv_disjoint(datalength, sizeof(int), objid, (size_t)cap * sizeof(oid)) &&
        cv_disjoint(datalength, sizeof(int), objidlength, sizeof(int)) && cv_disjoint(type, 1, objid, (size_t)cap * sizeof(oid)) &&
        cv_disjoint(type, 1, objidlength, sizeof(int)) && cv_disjoint(objid, (size_t)cap * sizeof(oid), objidlength, sizeof(int)),
        "asn_parse_objid: arguments disjoint");
    snmp_errno = nondet_int();
    *type = nondet_uchar();
    __CPROVER_havoc_object(objid);                       /* assigns: __CPROVER_object_whole(objid) */
    if (nondet_bool()) {
        long end = nondet_long(), k = nondet_long();     /* end = sp_hdr + sp_len_val, sp_tlv_ok(data, V, VMAX) */
        int nl = nondet_int();
        __CPROVER_assume(2 <= end && end <= (long)V);
        __CPROVER_assume(0 <= k && k <= end);            /* the result may stop short of the TLV (sub-identifier capacity reached) */
        __CPROVER_assume(1 <= nl && nl <= cap);
        *objidlength = nl;
        *datalength = V - (int)end;
        return data + k;
    }
    int nl = nondet_int(), nd = nondet_int();
    __CPROVER_assume(-1 <= nl && nl <= cap);
    __CPROVER_assume(0 <= nd && nd <= V);
    *objidlength = nl;
    *datalength = nd;
    return NULL;
}

#ifndef CV_NATIVE
/* ============================ harnesses ============================ */
u_char cv_datagram[DGMAX + CALLER_SLACK];     /* arbitrary contents (listed in "ghosts": nondet-initialised) */

#ifdef T_VARBIND
/* snmp_var_DecodeVarBind(Buffer, &V, &list, version) on a datagram tail of V arbitrary bytes with CALLER_SLACK bytes behind it.
 * Afterwards the harness does what the real owner (snmp_free_pdu) does: walks the list, frees every member with the REAL
 * snmp_var_free; cbmc's memory-leak check then shows that every variable_list / name / value allocated by the decoder was
 * either linked into the list or freed by the decoder itself -- on the accept path and on every error path. */
void h_varbind(void)
{
    int V, version;
    __CPROVER_assume(0 <= V && V <= DGMAX);
    u_char *buf = cv_datagram;
    cv_buf = buf; cv_end = buf + V + CALLER_SLACK;
    int len = V;
    struct variable_list *list = NULL;
    u_char *r = snmp_var_DecodeVarBind(buf, &len, &list, version);
    __CPROVER_assert(r == NULL || (__CPROVER_same_object(r, buf) && r - buf >= 2 && r - buf <= V),
                     "ensures: the result is NULL or points inside the V valid bytes, behind the SEQUENCE header");
#ifdef TWIN_VARBIND
    __CPROVER_assert(r == NULL || r - buf < V, "ensures: TWIN (must fail) the decoder never consumes the whole datagram");
#endif
    int n = 0;
    struct variable_list *v = list;
    while (v != NULL) {
        struct variable_list *next = v->next_variable;
        __CPROVER_assert(v->name != NULL && 0 <= v->name_length && v->name_length <= MAX_NAME_LEN,
                         "ensures: every linked variable has a name of at most MAX_NAME_LEN sub-identifiers");
        snmp_var_free(v);
        v = next;
        n++;
    }
#ifdef REACH
    __CPROVER_assert(!(r != NULL && n == 0), "reach: empty variable list accepted");
    __CPROVER_assert(!(r != NULL && n == 1), "reach: one variable decoded and linked");
    __CPROVER_assert(!(r == NULL && n == 1), "reach: error in the second variable, the first stays linked");
    __CPROVER_assert(!(r == NULL && n == 0), "reach: error before any variable was linked");
#endif
}
#endif

#ifdef T_PARSE
/* The entry point of the library on the receive path: snmp_parse(session, pdu, data, V), called by snmpDecodePacket with
 * pdu = snmp_pdu_create(0); whatever happens the owner then calls snmp_free_pdu(pdu) and frees the returned community. */
void h_parse(void)
{
    int V;
    __CPROVER_assume(0 <= V && V <= DGMAX);
    u_char *buf = cv_datagram;
    cv_buf = buf; cv_end = buf + V + CALLER_SLACK;
    struct snmp_session session;
    struct snmp_pdu *pdu = snmp_pdu_create(0);
    u_char *community = snmp_parse(&session, pdu, buf, V);
    if (community != NULL) {
        __CPROVER_assert(0 <= session.community_len && session.community_len < 128 && community == session.community,
                         "ensures: an accepted community is shorter than the 128-byte buffer");
        __CPROVER_assert(community[session.community_len] == '\0', "ensures: the returned community is NUL-terminated");
#ifdef TWIN_PARSE
        __CPROVER_assert(session.community_len < 127, "ensures: TWIN (must fail) community never fills the buffer");
#endif
    }
    int n = 0;
    for (struct variable_list *v = pdu->variables; v != NULL; v = v->next_variable) n++;
#ifdef REACH
    __CPROVER_assert(!(community != NULL && n == 1), "reach: message with one variable accepted");
    __CPROVER_assert(!(community != NULL && n == 0), "reach: message with an empty variable list accepted");
    __CPROVER_assert(!(community == NULL && n == 1), "reach: message rejected after one variable was linked");
    __CPROVER_assert(!(community == NULL && n == 0), "reach: message rejected in the header");
#endif
    snmp_free_pdu(pdu);
    free(community);
}
#endif
#endif /* CV_NATIVE */
