/* Assumed models of what lib/snmplib/snmp_vars.c / snmp_msg.c / snmp_pdu.c / asn1.c call outside themselves
 * (all listed under "trusted" in unit.json).
 *
 * snmp_set_api_error: the real definition (lib/snmplib/snmp_api_error.c) is literally this one-liner.
 * snmplib_debug: declared variadic (include/snmp_debug.h); the real body formats into a BUFSIZ stack buffer with vsnprintf
 *   or prints to stderr and touches nothing else.  Modelled NON-variadically (README "Stubs") with the two fixed
 *   parameters; it does nothing.  The third argument some call sites pass (an int-promoted value read from a local or from
 *   *CommLenP / *Version / Var->type) is evaluated by the caller and dropped.  (A three-parameter stub makes cbmc 6.11 insert an
 *   untyped nondet value at the two-argument call sites, which crashes its trace builder under --json-ui.) */
int snmp_errno = 0;
void snmp_set_api_error(int x) { snmp_errno = x; }
void snmplib_debug(int lvl, const char *fmt) { (void)lvl; (void)fmt; }

/* squid's assert() (compat/assert.h) calls xassert(), which aborts the process: reaching it violates C39's "abort" clause.
 * (snmp_msg.c includes <assert.h> after squid.h, so its two assert()s use glibc's __assert_fail, which cbmc models itself.) */
void xassert(const char *msg, const char *file, int line)
{
    (void)msg; (void)file; (void)line;
    __CPROVER_assert(0, "ensures: no assert() of the library fires (xassert aborts)");
    __CPROVER_assume(0);
}
