// Native replay for the etag unit: the REAL src/ETag.cc (C++, unmodified) under ASan+UBSan; the counterexample's strings are
// re-run and the same postconditions re-evaluated (spec functions #included from contract.c).
#include "replay.h"
#include <string>
#include <vector>
#include "squid.h"
extern "C" void xassert(const char *msg, const char *file, int line)
{
    printf("REPLAY-FAIL: in-code assert(%s) failed at %s:%d\n", msg, file, line);
    exit(1);
}
extern "C" const char *__asan_default_options() { return "detect_leaks=0"; }
#include REAL_ETAG_CC
#define CV_NATIVE 1
#define N 4096
namespace spec {
#include "contract.c"
}

static std::string cstr(const std::vector<long long> &v)
{
    std::string s;
    for (auto x : v) { if (x == 0) break; s.push_back((char)x); }
    return s;
}
// exact-size heap copy: ASan reports any read past the terminator
static char *heapstr(const std::string &s) { char *p = (char *)malloc(s.size() + 1); memcpy(p, s.c_str(), s.size() + 1); return p; }
static char *padded(const std::string &s) { char *p = (char *)calloc(1, 4100); memcpy(p, s.c_str(), s.size()); return p; }

static int check_parse(const std::string &s)
{
    char *h = heapstr(s);
    ETag t; t.str = "junk"; t.weak = 7;
    int r = etagParseInit(&t, h);
    char *p = padded(s);
    int wf = spec::spec_wellformed(p), w = s.size() >= 2 && spec::spec_weak_prefix(p);
    printf("etagParseInit(\"%s\") = %d weak=%d str=%s ; spec: wellformed=%d weak=%d\n", s.c_str(), r, t.weak, t.str ? t.str : "(null)", wf, w);
    if ((r != 0) != (wf != 0)) { printf("REPLAY-FAIL: accepted != well-formed\n"); return 1; }
    if (t.weak != w) { printf("REPLAY-FAIL: weak flag != W/ prefix\n"); return 1; }
    if (wf ? t.str != h + (w ? 2 : 0) : t.str != nullptr) { printf("REPLAY-FAIL: str member\n"); return 1; }
    return 0;
}

int main(int argc, char **argv)
{
    if (argc < 3) return 2;
    std::string mode = argv[1];
    Cex c; if (!c.load(argv[2])) return 2;
    if (mode == "parse") {
        // dfcc counterexample: is_fresh allocates the argument inside the wrapper, so the trace shows the string only as one of the
        // dynamic objects; every candidate object is replayed (the contract holds for all strings, so any failure is a reproduction)
        std::string s = cstr(c.pointee("arg.str_wrapper"));
        if (!s.empty() && check_parse(s)) return 1;
        for (auto &kv : c.kv)
            if (kv.first.rfind("dynamic_object", 0) == 0 && !kv.second.empty() && kv.second[0] != '@')
                if (check_parse(cstr(c.arr(kv.first)))) return 1;
        RP_OK("etagParseInit agrees with the specification on this input");
    }
    if (mode == "equal" || mode == "parsecmp") {
        std::string a = cstr(c.arr("a")), b = cstr(c.arr("b"));
        if (mode == "equal") {
            ETag t1, t2; t1.str = heapstr(a); t2.str = heapstr(b); t1.weak = (int)c.num("w1"); t2.weak = (int)c.num("w2");
            bool se = etagIsStrongEqual(t1, t2), we = etagIsWeakEqual(t1, t2);
            bool same = a == b;
            printf("a=\"%s\" weak=%d b=\"%s\" weak=%d strong=%d weak-equal=%d\n", a.c_str(), t1.weak, b.c_str(), t2.weak, se, we);
            if (se != (t1.weak == 0 && t2.weak == 0 && same)) RP_FAIL("strong-equal != (neither weak and strings equal)");
            if (we != same) RP_FAIL("weak-equal != strings equal");
            RP_OK("comparison agrees with the specification");
        }
        if (check_parse(a) || check_parse(b)) return 1;
        ETag t1, t2;
        int ok1 = etagParseInit(&t1, heapstr(a)), ok2 = etagParseInit(&t2, heapstr(b));
        if (ok1 && ok2) {
            char *pa = padded(a), *pb = padded(b);
            int w1 = spec::spec_weak_prefix(pa), w2 = spec::spec_weak_prefix(pb);
            bool same = std::string(pa + (w1 ? 2 : 0)) == std::string(pb + (w2 ? 2 : 0));
            bool se = etagIsStrongEqual(t1, t2), we = etagIsWeakEqual(t1, t2);
            printf("a=%s b=%s strong=%d weak-equal=%d\n", a.c_str(), b.c_str(), se, we);
            if (se != (!w1 && !w2 && same)) RP_FAIL("strong comparison differs from RFC 9110 8.8.3.2");
            if (we != same) RP_FAIL("weak comparison differs from RFC 9110 8.8.3.2");
        }
        RP_OK("parse + comparison agree with the specification");
    }
    return 2;
}
