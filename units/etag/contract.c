/* Sidecar contracts for src/ETag.cc (compiled in C mode; see unit.json for the 5 mechanical rewrites).
 * C14's comparison kernel, RFC 9110 8.8.3: entity-tag = [ "W/" ] DQUOTE *etagc DQUOTE;
 * strong comparison: both NOT weak and opaque-tags identical; weak comparison: opaque-tags identical. */
#include <stddef.h>
#include <stdbool.h>
#include "ETag.h"          /* the real header, rewritten copy in the build directory */

#ifndef N
#define N 16               /* every string is NUL-terminated within N bytes */
#endif

/* opaque-tag (quoted string incl. the quotes) equality, written independently of strcmp */
static int spec_streq(const char *a, const char *b)
{
    for (size_t i = 0; i < N; i++) {
        if (a[i] != b[i]) return 0;
        if (a[i] == 0) return 1;
    }
    return 0;
}
static int spec_weak_prefix(const char *s) { return s[0] == 'W' && s[1] == '/'; }       /* s[1] is read only when s[0] != 0 */
static size_t spec_len(const char *s) { size_t n = 0; while (n < N && s[n] != 0) n++; return n; }
/* well-formed entity-tag: after an optional W/ at least two characters, first and last are DQUOTE */
static int spec_wellformed(const char *s)
{
    size_t off = spec_weak_prefix(s) ? 2 : 0;
    size_t len = spec_len(s) - off;
    return len >= 2 && s[off] == '"' && s[off + len - 1] == '"';
}

#ifndef CV_NATIVE
/* ===================== etagParseInit (dfcc: frame + exact result) ===================== */
#if defined(T_PARSE)
size_t g_len;              /* ghost: strlen(str), fixed by requires */
#define W_   (g_len >= 2 && str[0] == 'W' && str[1] == '/')
#define OFF_ ((size_t)(W_ ? 2 : 0))
#define OK_  (g_len - OFF_ >= 2 && str[OFF_] == '"' && str[g_len - 1] == '"')
int etagParseInit(ETag *etag, const char *str)
__CPROVER_requires(__CPROVER_is_fresh(etag, sizeof(ETag)))
__CPROVER_requires(__CPROVER_is_fresh(str, N))
__CPROVER_requires(g_len < N && str[g_len] == 0)
__CPROVER_requires(__CPROVER_forall { size_t k; (k < N) ==> (k < g_len ==> str[k] != 0) })
__CPROVER_assigns(etag->str, etag->weak)
#ifdef TWIN_PARSE
__CPROVER_ensures((__CPROVER_return_value != 0) != (OK_))
#else
/* returns non-zero <=> after an optional W/ the string is at least two characters and starts and ends with DQUOTE */
__CPROVER_ensures((__CPROVER_return_value != 0) == (OK_))
#endif
__CPROVER_ensures(__CPROVER_return_value == 0 || __CPROVER_return_value == 1)
/* weak <=> the W/ prefix */
__CPROVER_ensures(etag->weak == (W_ ? 1 : 0))
/* on success str points at the opening quote inside the caller's buffer (no copy), otherwise NULL */
__CPROVER_ensures(OK_ ? etag->str == str + OFF_ : etag->str == (const char *)0)
;
void h_parse(void)
{
    ETag *e; const char *s;
    int r = etagParseInit(e, s);
#ifdef REACH
    __CPROVER_assert(!(r == 1 && g_len == 2), "reach: accepts the empty opaque tag");
    __CPROVER_assert(!(r == 1 && g_len == N - 1), "reach: accepts a full-length tag");
    __CPROVER_assert(!(r == 0 && g_len >= 4), "reach: rejects a long string");
    __CPROVER_assert(!(r == 0 && g_len == 0), "reach: rejects the empty string");
#endif
}
#endif

/* ===================== etagIsStrongEqual / etagIsWeakEqual on arbitrary ETag values ===================== */
#if defined(T_EQUAL)
void h_equal(void)
{
    char a[N], b[N]; int w1, w2;
    a[N - 1] = 0; b[N - 1] = 0;                 /* requires: both str members are NUL-terminated strings */
    ETag t1, t2;
    t1.str = a; t1.weak = w1; t2.str = b; t2.weak = w2;
    bool se = etagIsStrongEqual(t1, t2);
    bool we = etagIsWeakEqual(t1, t2);
    int same = spec_streq(a, b);
#ifdef TWIN_EQUAL
    __CPROVER_assert(se != (w1 == 0 && w2 == 0 && same), "ensures: TWIN (negated) strong");
#else
    __CPROVER_assert(se == (w1 == 0 && w2 == 0 && same), "ensures: strong-equal <=> neither is weak and the strings are equal");
#endif
    __CPROVER_assert(we == (same != 0), "ensures: weak-equal <=> the strings are equal");
    __CPROVER_assert(a[N - 1] == 0 && b[N - 1] == 0 && t1.str == a && t2.str == b, "ensures: arguments not written");
#ifdef REACH
    __CPROVER_assert(!(se && a[0] == '"' && a[N - 2] == '"'), "reach: strong-equal full-length tags");
    __CPROVER_assert(!(we && !se), "reach: weak-equal but not strong-equal");
    __CPROVER_assert(!(!we && a[0] == b[0] && a[0] != 0), "reach: differ after the first byte");
#endif
}
#endif

/* ===================== the kernel as the callers use it: parse two field values, then compare ===================== */
#if defined(T_PARSECMP)
void h_parsecmp(void)
{
    char a[N], b[N];
    a[N - 1] = 0; b[N - 1] = 0;
    ETag t1, t2;
    int ok1 = etagParseInit(&t1, a);
    int ok2 = etagParseInit(&t2, b);
    __CPROVER_assert((ok1 != 0) == spec_wellformed(a) && (ok2 != 0) == spec_wellformed(b), "ensures: accepted <=> well-formed entity-tag");
    if (ok1 && ok2) {
        int w1 = spec_weak_prefix(a), w2 = spec_weak_prefix(b);
        int same = spec_streq(a + (w1 ? 2 : 0), b + (w2 ? 2 : 0));
        bool se = etagIsStrongEqual(t1, t2), we = etagIsWeakEqual(t1, t2);
#ifdef TWIN_PARSECMP
        __CPROVER_assert(se != (!w1 && !w2 && same), "ensures: TWIN (negated) strong comparison");
#else
        __CPROVER_assert(se == (!w1 && !w2 && same), "ensures: RFC 9110 strong comparison: no W/ on either side and identical opaque-tags");
#endif
        __CPROVER_assert(we == (same != 0), "ensures: RFC 9110 weak comparison: identical opaque-tags, W/ ignored");
#ifdef REACH
        __CPROVER_assert(!(we && !se && w1 && !w2), "reach: W/\"x\" weak-matches \"x\" but not strongly");
        __CPROVER_assert(!(se), "reach: strong match");
        __CPROVER_assert(!(!we && w1 && w2), "reach: two weak tags that differ");
#endif
    }
#ifdef REACH
    __CPROVER_assert(!(!ok1 && a[0] == '"'), "reach: rejected (no closing quote)");
#endif
}
#endif
#endif /* CV_NATIVE */
