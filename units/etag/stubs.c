/* squid's assert(EX) expands to (EX) ? (void)0 : xassert("EX", file, line); the real xassert aborts the process.
 * Reaching it is reported as a failed obligation and stops the path, as natively. */
void xassert(const char *msg, const char *file, int line)
{
    (void)msg; (void)file; (void)line;
    __CPROVER_assert(0, "in-code assert: assert(etag && str) holds (xassert is never reached)");
    __CPROVER_assume(0);
}
